package sim

import (
	"encoding/json"
	"fmt"
	"os"
	"os/exec"
	"path/filepath"
	"runtime"
	"sort"
	"strconv"
	"strings"
	"time"

	"github.com/MichaelMure/git-bug/zzverif/verifrt"
)

// VerifDir is where known findings are read and evidence and replay files are written; sweeps
// run from a committed snapshot point it there (VERIF_DIR) so that they never touch /verif.
var VerifDir = func() string {
	if d := os.Getenv("VERIF_DIR"); d != "" {
		return d
	}
	return "/verif"
}()

type tierSpec struct {
	BudgetS int
	MaxRuns int
}

func tierOf(tier string) tierSpec {
	t := tierSpec{BudgetS: 35, MaxRuns: 1 << 30}
	if tier == "thorough" {
		t.BudgetS = 600
	}
	if v := os.Getenv("VERIF_BUDGET_S"); v != "" {
		if n, err := strconv.Atoi(v); err == nil && n > 0 {
			t.BudgetS = n
		}
	}
	if v := os.Getenv("VERIF_MAX_RUNS"); v != "" {
		if n, err := strconv.Atoi(v); err == nil && n > 0 {
			t.MaxRuns = n
		}
	}
	return t
}

func pickEngine(prop string, run int) Engine {
	names := PropEngines[prop]
	if len(names) == 0 {
		return nil
	}
	return Engines[names[run%len(names)]]
}

// safeExecute converts a panic of the harness itself into a harness error.
func safeExecute(e Engine, p *Plan, keep bool) (res *RunResult) {
	defer func() {
		if r := recover(); r != nil {
			buf := make([]byte, 8192)
			n := runtime.Stack(buf, false)
			res = &RunResult{HarnessErr: fmt.Sprintf("harness panic: %v\n%s", r, buf[:n])}
		}
	}()
	return e.Execute(p, keep)
}

// RunShard executes run indices shard, shard+n, ... within the budget.
func RunShard(prop, tier string, seed uint64, shard, nshards int, out string) {
	ts := tierOf(tier)
	start := time.Now()
	deadline := start.Add(time.Duration(ts.BudgetS) * time.Second)
	rep := &ShardReport{Shard: shard, Faults: map[string]int{}, Probes: map[string]int{}, ViolCount: map[string]int{}}
	nt := map[string]bool{}
	all := map[string]bool{}
	kindKept := map[string]int{}
	wantHashes := os.Getenv("VERIF_RUN_HASHES") != ""
	findings, ferr := LoadFindings(filepath.Join(VerifDir, "known_findings.json"))
	if ferr != nil {
		rep.Harness = append(rep.Harness, "known_findings.json: "+ferr.Error())
	}
	rep.KnownHit = map[string]int{}
	if wantHashes {
		rep.RunHashes = map[string]string{}
	}
	for run := shard; rep.Runs < ts.MaxRuns/nshards+1 && run < ts.MaxRuns; run += nshards {
		if time.Now().After(deadline) {
			break
		}
		e := pickEngine(prop, run)
		if e == nil {
			rep.Harness = append(rep.Harness, "no engine for "+prop)
			break
		}
		plan := e.Generate(prop, tier, seed, run)
		res := safeExecute(e, plan, false)
		if res.HarnessErr != "" {
			// trouble inside the simulator's own set-up, not a verdict. Execution is a pure function
			// of the plan, so the same trouble must show again; a run that goes through the second
			// time met a transient condition of the host (counted, reported in the evidence)
			first := res.HarnessErr
			res = safeExecute(e, plan, false)
			if res.HarnessErr == "" {
				rep.Probes["harness_error_not_reproduced"]++
				fmt.Fprintf(os.Stderr, "shard %d: run %d: harness error did not show again: %s\n", shard, run, first)
			}
		}
		rep.Runs++
		if res.Cases > 0 {
			rep.Cases += res.Cases
		} else {
			rep.Cases++
		}
		rep.Steps += res.Steps
		rep.StepsOK += res.StepsOK
		rep.SimSeconds += res.SimSeconds
		rep.Lamport += res.Lamport
		mergeCounts(rep.Faults, res.Faults)
		mergeCounts(rep.Probes, res.Probes)
		all[res.LogHash] = true
		if wantHashes {
			rep.RunHashes[strconv.Itoa(run)] = res.LogHash
		}
		if res.NTKey != "" {
			nt[res.NTKey+"/"+res.LogHash] = true
		}
		if res.HarnessErr != "" && len(rep.Harness) < 5 {
			rep.Harness = append(rep.Harness, fmt.Sprintf("run %d: %s", run, res.HarnessErr))
		}
		for _, v := range res.Violations {
			key := v.Property + "/" + v.Kind
			rep.ViolCount[key]++
			if f := MatchKnown(findings, v); f != nil {
				rep.KnownHit[f.Property+"/"+f.Kind+"/"+f.Match]++
				continue
			}
			// keep the first runs per kind for shrinking
			if kindKept[key] < 3 && len(rep.Viols) < 40 {
				kindKept[key]++
				rep.Viols = append(rep.Viols, ViolRun{Plan: plan, Violation: v})
			}
		}
		if len(rep.Samples) < 2 && res.NTKey != "" && len(res.Violations) == 0 {
			rep.Samples = append(rep.Samples, plan)
		}
	}
	for k := range nt {
		rep.NTHashes = append(rep.NTHashes, k)
	}
	sort.Strings(rep.NTHashes)
	rep.AllHashes = len(all)
	if n := verifrt.QuiesceTimeouts.Load(); n > 0 {
		rep.Probes["goroutines_still_running_when_panics_were_collected"] += int(n)
	}
	rep.WallS = time.Since(start).Seconds()
	b, _ := json.Marshal(rep)
	if err := os.WriteFile(out, b, 0o644); err != nil {
		fmt.Fprintln(os.Stderr, "shard: cannot write report:", err)
		os.Exit(2)
	}
}

func sameViolation(res *RunResult, target Violation) *Violation {
	for i := range res.Violations {
		v := res.Violations[i]
		if v.Property == target.Property && v.Kind == target.Kind {
			return &v
		}
	}
	return nil
}

func pinned(p *Plan, v Violation) *Plan {
	q := p.Clone()
	if q.Cfg == nil {
		q.Cfg = map[string]interface{}{}
	}
	for k, val := range v.Pin {
		q.Cfg[k] = val
	}
	return q
}

// Shrink reduces the plan by delta debugging over steps, then over nested operations
// and step arguments, keeping a candidate only if the same oracle kind fires.
func Shrink(e Engine, plan *Plan, target Violation, budget time.Duration) (*Plan, Violation, int) {
	deadline := time.Now().Add(budget)
	execs := 0
	best := pinned(plan, target)
	bestV := target
	try := func(c *Plan) bool {
		if time.Now().After(deadline) {
			return false
		}
		execs++
		res := safeExecute(e, c, false)
		if res.HarnessErr != "" {
			return false
		}
		if v := sameViolation(res, target); v != nil {
			best = pinned(c, *v)
			bestV = *v
			return true
		}
		return false
	}
	// ddmin over top-level steps
	n := 2
	for len(best.Steps) >= 2 && time.Now().Before(deadline) {
		chunk := (len(best.Steps) + n - 1) / n
		reduced := false
		for i := 0; i < len(best.Steps); i += chunk {
			c := best.Clone()
			end := i + chunk
			if end > len(c.Steps) {
				end = len(c.Steps)
			}
			c.Steps = append(append([]Step{}, c.Steps[:i]...), c.Steps[end:]...)
			if len(c.Steps) == 0 {
				continue
			}
			if try(c) {
				reduced = true
				n = max(n-1, 2)
				break
			}
		}
		if !reduced {
			if chunk == 1 {
				break
			}
			n = min(n*2, len(best.Steps))
		}
	}
	// nested operations and step simplifications
	for pass := 0; pass < 2 && time.Now().Before(deadline); pass++ {
		for i := 0; i < len(best.Steps) && time.Now().Before(deadline); i++ {
			for j := len(best.Steps[i].Sub) - 1; j >= 0 && len(best.Steps[i].Sub) > 1; j-- {
				c := best.Clone()
				c.Steps[i].Sub = append(append([]Step{}, c.Steps[i].Sub[:j]...), c.Steps[i].Sub[j+1:]...)
				try(c)
				if j > len(best.Steps[i].Sub) {
					j = len(best.Steps[i].Sub)
				}
			}
			if i >= len(best.Steps) {
				break
			}
			for _, alt := range e.Simplify(best.Steps[i]) {
				c := best.Clone()
				c.Steps[i] = alt
				if try(c) {
					break
				}
			}
		}
	}
	return best, bestV, execs
}

type ReplayFile struct {
	Property   string    `json:"property"`
	OracleKind string    `json:"oracle_kind"`
	Detail     string    `json:"detail"`
	Seed       uint64    `json:"verif_seed"`
	Run        int       `json:"run"`
	Plan       *Plan     `json:"plan"`
	OrigSteps  int       `json:"steps_before_minimisation"`
	Execs      int       `json:"shrink_executions"`
	LogHash    string    `json:"log_hash"`
	Trace      []string  `json:"trace,omitempty"`
	Violation  Violation `json:"violation"`
}

// Replay re-executes a replay file. Exit status: 1 and a VIOLATION line if the same
// oracle kind fires, 0 if not.
func Replay(path string, verbose bool) int {
	b, err := os.ReadFile(path)
	if err != nil {
		fmt.Fprintln(os.Stderr, "replay:", err)
		return 2
	}
	var rf ReplayFile
	if err := json.Unmarshal(b, &rf); err != nil {
		fmt.Fprintln(os.Stderr, "replay:", err)
		return 2
	}
	e := Engines[rf.Plan.Engine]
	if e == nil {
		fmt.Fprintln(os.Stderr, "replay: unknown engine", rf.Plan.Engine)
		return 2
	}
	// The simulator is deterministic; the system under test may not be (a defect that makes
	// an outcome depend on Go's randomised map iteration, say). Such a violation cannot replay
	// on every attempt: the plan is re-executed a few times and the attempt count is reported.
	attempts := 6
	for a := 1; a <= attempts; a++ {
		res := safeExecute(e, rf.Plan, verbose)
		if res.HarnessErr != "" {
			fmt.Fprintln(os.Stderr, "replay: harness error:", res.HarnessErr)
			return 2
		}
		out := map[string]interface{}{"log_hash": res.LogHash, "violations": res.Violations, "attempt": a}
		ob, _ := json.Marshal(out)
		fmt.Println("REPLAY-RESULT " + string(ob))
		if verbose {
			for _, l := range res.Trace {
				fmt.Println(l)
			}
		}
		if v := sameViolation(res, rf.Violation); v != nil {
			fmt.Printf("VIOLATION property=%s replay=%s\n", rf.Property, path)
			fmt.Printf("  kind=%s %s\n", v.Kind, trunc(v.Detail, 400))
			if a > 1 {
				fmt.Printf("  note: reproduced at attempt %d of %d: the outcome of the code under test is not a function of the plan (non-determinism in git-bug itself)\n", a, attempts)
			}
			return 1
		}
	}
	fmt.Println("replay: violation did not reproduce")
	return 0
}

// Drive is the whole check: shards, merge, shrink, fresh-process replay, findings,
// evidence, exit status.
func Drive(prop, tier string, seed uint64) int {
	start := time.Now()
	self, _ := os.Executable()
	nshards := runtime.NumCPU()
	if v := os.Getenv("VERIF_SHARDS"); v != "" {
		if n, err := strconv.Atoi(v); err == nil && n > 0 {
			nshards = n
		}
	}
	if len(PropEngines[prop]) == 0 {
		fmt.Fprintln(os.Stderr, "no engine registered for", prop)
		return 2
	}
	info := describeAll(prop)
	tmp, err := os.MkdirTemp(filepath.Join(VerifDir, "bin"), "drive-"+prop+"-")
	if err != nil {
		fmt.Fprintln(os.Stderr, err)
		return 2
	}
	defer os.RemoveAll(tmp)
	fmt.Printf("check %s tier=%s seed=%d shards=%d budget=%ds\n", prop, tier, seed, nshards, tierOf(tier).BudgetS)

	var cmds []*exec.Cmd
	for i := 0; i < nshards; i++ {
		c := exec.Command(self, "shard", prop, "--tier", tier, "--seed", strconv.FormatUint(seed, 10),
			"--shard", fmt.Sprintf("%d/%d", i, nshards), "--out", filepath.Join(tmp, fmt.Sprintf("s%d.json", i)))
		c.Stderr = os.Stderr
		c.Env = append(os.Environ(), "GOMAXPROCS=2")
		if err := c.Start(); err != nil {
			fmt.Fprintln(os.Stderr, "cannot start shard:", err)
			return 2
		}
		cmds = append(cmds, c)
	}
	// watchdog: budget + generous slack
	timer := time.AfterFunc(time.Duration(tierOf(tier).BudgetS*3+300)*time.Second, func() {
		for _, c := range cmds {
			_ = c.Process.Kill()
		}
	})
	failed := false
	for _, c := range cmds {
		if err := c.Wait(); err != nil {
			fmt.Fprintln(os.Stderr, "shard failed:", err)
			failed = true
		}
	}
	timer.Stop()
	if failed {
		fmt.Fprintln(os.Stderr, "harness failure: a shard process died (this is not a property verdict)")
		return 2
	}

	tot := &ShardReport{Faults: map[string]int{}, Probes: map[string]int{}, ViolCount: map[string]int{}}
	nt := map[string]bool{}
	knownHit := map[string]int{}
	for i := 0; i < nshards; i++ {
		b, err := os.ReadFile(filepath.Join(tmp, fmt.Sprintf("s%d.json", i)))
		if err != nil {
			fmt.Fprintln(os.Stderr, "missing shard report:", err)
			return 2
		}
		var r ShardReport
		if err := json.Unmarshal(b, &r); err != nil {
			fmt.Fprintln(os.Stderr, "bad shard report:", err)
			return 2
		}
		tot.Runs += r.Runs
		tot.Cases += r.Cases
		tot.Steps += r.Steps
		tot.StepsOK += r.StepsOK
		tot.SimSeconds += r.SimSeconds
		tot.Lamport += r.Lamport
		tot.AllHashes += r.AllHashes
		mergeCounts(tot.Faults, r.Faults)
		mergeCounts(tot.Probes, r.Probes)
		mergeCounts(tot.ViolCount, r.ViolCount)
		mergeCounts(knownHit, r.KnownHit)
		for _, h := range r.NTHashes {
			nt[h] = true
		}
		tot.Viols = append(tot.Viols, r.Viols...)
		tot.Harness = append(tot.Harness, r.Harness...)
		if len(tot.Samples) < 3 {
			tot.Samples = append(tot.Samples, r.Samples...)
		}
	}
	if len(tot.Harness) > 0 {
		for _, h := range tot.Harness {
			fmt.Fprintln(os.Stderr, "harness error:", trunc(h, 2000))
		}
		if len(tot.Viols) == 0 {
			fmt.Fprintln(os.Stderr, "harness failure (this is not a property verdict)")
			return 2
		}
		// some runs could not even be set up while others found violations (a defect that makes
		// entities unreadable does both): the violations are still shrunk and replayed in a fresh
		// process below, and only a confirmed one is reported
		fmt.Fprintln(os.Stderr, "harness errors in some runs; going on with the violations that were found")
	}

	findings, err := LoadFindings(filepath.Join(VerifDir, "known_findings.json"))
	if err != nil {
		fmt.Fprintln(os.Stderr, "known_findings.json:", err)
		return 2
	}

	// one representative (lowest run index) per oracle kind, known-finding matches first
	sort.SliceStable(tot.Viols, func(i, j int) bool { return tot.Viols[i].Plan.Run < tot.Viols[j].Plan.Run })
	type group struct {
		runs []ViolRun
	}
	groups := map[string]*group{}
	var order []string
	for _, vr := range tot.Viols {
		k := vr.Violation.Kind
		if groups[k] == nil {
			groups[k] = &group{}
			order = append(order, k)
		}
		groups[k].runs = append(groups[k].runs, vr)
	}
	_ = os.MkdirAll(filepath.Join(VerifDir, "replays"), 0o755)
	var violLines []string
	var knownText = map[string]*Finding{}
	for _, f := range findings {
		knownText[f.Property+"/"+f.Kind+"/"+f.Match] = f
	}
	reported := 0
	shrinkBudget := 45 * time.Second
	if tier == "thorough" {
		shrinkBudget = 120 * time.Second
	}
	for _, kind := range order {
		g := groups[kind]
		// runs whose raw violation already matches a known finding are counted;
		// the first run that does not is shrunk and reported
		var cand *ViolRun
		for i := range g.runs {
			if f := MatchKnown(findings, g.runs[i].Violation); f != nil {
				key := f.Property + "/" + f.Kind + "/" + f.Match
				knownHit[key]++
				knownText[key] = f
				continue
			}
			if cand == nil {
				cand = &g.runs[i]
			}
		}
		if cand == nil {
			continue
		}
		e := Engines[cand.Plan.Engine]
		small, v, execs := Shrink(e, cand.Plan, cand.Violation, shrinkBudget)
		if f := MatchKnown(findings, v); f != nil {
			key := f.Property + "/" + f.Kind + "/" + f.Match
			knownHit[key]++
			knownText[key] = f
			continue
		}
		res := safeExecute(e, small, true)
		rf := ReplayFile{Property: prop, OracleKind: v.Kind, Detail: v.Detail, Seed: seed, Run: cand.Plan.Run, Plan: small,
			OrigSteps: len(cand.Plan.Steps), Execs: execs, LogHash: res.LogHash, Trace: res.Trace, Violation: v}
		path := filepath.Join(VerifDir, "replays", fmt.Sprintf("%s-%s-%d-%d.json", prop, kind, seed, cand.Plan.Run))
		b, _ := json.MarshalIndent(rf, "", " ")
		if err := os.WriteFile(path, b, 0o644); err != nil {
			fmt.Fprintln(os.Stderr, err)
			return 2
		}
		// fresh OS process replay
		rc := exec.Command(self, "replay", path)
		outb, _ := rc.CombinedOutput()
		if rc.ProcessState == nil || rc.ProcessState.ExitCode() != 1 {
			fmt.Fprintf(os.Stderr, "harness failure: violation %s/%s (run %d) did not reproduce in a fresh process:\n%s\n", prop, kind, cand.Plan.Run, trunc(string(outb), 2000))
			return 2
		}
		reported++
		violLines = append(violLines, fmt.Sprintf("VIOLATION property=%s replay=%s", prop, path))
		violLines = append(violLines, fmt.Sprintf("  kind=%s run=%d steps=%d (from %d) occurrences=%d: %s", kind, cand.Plan.Run, len(small.Steps), len(cand.Plan.Steps), tot.ViolCount[prop+"/"+kind], trunc(v.Detail, 600)))
	}

	wall := time.Since(start).Seconds()
	// ---- evidence
	var samples []interface{}
	for i, s := range tot.Samples {
		if i >= 2 {
			break
		}
		samples = append(samples, compactPlan(s))
	}
	if len(samples) == 0 {
		samples = append(samples, "no non-trivial sample recorded in this run")
	}
	var stats map[string]interface{}
	if sb, err := os.ReadFile(self + ".stats.json"); err == nil {
		var raw map[string]interface{}
		if json.Unmarshal(sb, &raw) == nil {
			stats = map[string]interface{}{"files_rewritten": raw["files_rewritten"], "rules": raw["rules"]}
		}
	}
	var known []string
	for k, n := range knownHit {
		known = append(known, fmt.Sprintf("%s x%d", k, n))
	}
	sort.Strings(known)
	okRatio := 0.0
	if tot.Steps > 0 {
		okRatio = float64(tot.StepsOK) / float64(tot.Steps)
	}
	zeroProbes := []string{}
	for _, k := range sortedCountKeys(tot.Probes) {
		if tot.Probes[k] == 0 {
			zeroProbes = append(zeroProbes, k)
		}
	}
	cov := map[string]interface{}{
		"evaluations":         tot.Cases,
		"runs":                tot.Runs,
		"distinct_nontrivial": len(nt),
		"rule":                info.Rule,
		"samples":             samples,
		"runs_per_hour":       int(float64(tot.Runs) / wall * 3600),
		"simulated_seconds":   tot.SimSeconds,
		"lamport_ticks":       tot.Lamport,
		"steps":               tot.Steps,
		"steps_ok_ratio":      okRatio,
		"faults_fired":        tot.Faults,
		"probes":              tot.Probes,
		"probes_at_zero":      zeroProbes,
		"distinct_log_hashes": tot.AllHashes,
		"components_real":     info.Real,
		"components_stub":     info.Stub,
		"oracle_kinds":        info.Kinds,
		"known_findings_hit":  known,
		"violation_counts":    tot.ViolCount,
		"instrumentation":     stats,
		"engines":             PropEngines[prop],
		"shards":              nshards,
	}
	ev := map[string]interface{}{
		"property_id": prop,
		"tier":        tier,
		"seed":        seed,
		"level":       info.Level,
		"coverage":    cov,
		"assumptions": info.Assumptions,
		"wall_s":      wall,
		"violations":  reported,
	}
	eb, _ := json.MarshalIndent(ev, "", " ")
	evDir := filepath.Join(VerifDir, "evidence")
	if d := os.Getenv("VERIF_EVIDENCE_DIR"); d != "" {
		// runs against a deliberately broken tree (tools/try_mutant.sh) keep their evidence apart
		evDir = d
		_ = os.MkdirAll(evDir, 0o755)
	}
	if err := os.WriteFile(filepath.Join(evDir, prop+".json"), eb, 0o644); err != nil {
		fmt.Fprintln(os.Stderr, err)
		return 2
	}
	fmt.Printf("%s: runs=%d cases=%d nontrivial-distinct=%d steps=%d ok=%.0f%% wall=%.0fs\n", prop, tot.Runs, tot.Cases, len(nt), tot.Steps, okRatio*100, wall)
	fmt.Printf("  faults fired: %v\n  probes: %v\n", tot.Faults, tot.Probes)
	for key, n := range knownHit {
		f := knownText[key]
		fmt.Printf("KNOWN-FINDING: property=%s kind=%s occurrences=%d %s\n", f.Property, f.Kind, n, f.Text)
	}
	if len(nt) < 2 {
		fmt.Fprintln(os.Stderr, "harness failure: fewer than 2 distinct non-trivial runs; the workload did not reach the property")
		return 2
	}
	if reported > 0 {
		for _, l := range violLines {
			fmt.Println(l)
		}
		return 1
	}
	fmt.Printf("OK property=%s held on everything explored\n", prop)
	return 0
}

func compactPlan(p *Plan) interface{} {
	var steps []string
	for _, s := range p.Steps {
		steps = append(steps, StepString(s))
	}
	return map[string]interface{}{"engine": p.Engine, "run": p.Run, "cfg": p.Cfg, "steps": steps}
}

func StepString(s Step) string {
	var b strings.Builder
	fmt.Fprintf(&b, "%s r%d", s.Op, s.R)
	if s.K != "" {
		fmt.Fprintf(&b, " %s", s.K)
	}
	if s.H != 0 {
		fmt.Fprintf(&b, " h%d", s.H)
	}
	if s.B != 0 {
		fmt.Fprintf(&b, " b%d", s.B)
	}
	if s.A != 0 {
		fmt.Fprintf(&b, " a%d", s.A)
	}
	if s.N != 0 {
		fmt.Fprintf(&b, " n%d", s.N)
	}
	if s.S != "" {
		fmt.Fprintf(&b, " %q", trunc(s.S, 24))
	}
	if s.F != "" {
		fmt.Fprintf(&b, " fault=%s", s.F)
	}
	if len(s.Sub) > 0 {
		var subs []string
		for _, x := range s.Sub {
			subs = append(subs, x.Op+":"+x.K)
		}
		fmt.Fprintf(&b, " [%s]", strings.Join(subs, " "))
	}
	return b.String()
}

// describeAll merges what the engines deciding a property say about it. When they work at
// different levels the weaker one (exploration) is what the check as a whole claims.
func describeAll(prop string) PropInfo {
	var names []string
	for _, n := range PropEngines[prop] { // (an engine may be listed several times: its share of the runs)
		dup := false
		for _, m := range names {
			dup = dup || m == n
		}
		if !dup {
			names = append(names, n)
		}
	}
	sort.Strings(names)
	var out PropInfo
	uniq := func(dst []string, src []string) []string {
		for _, s := range src {
			found := false
			for _, d := range dst {
				if d == s {
					found = true
				}
			}
			if !found {
				dst = append(dst, s)
			}
		}
		return dst
	}
	for i, n := range names {
		in := Engines[n].Describe(prop)
		if i == 0 {
			out.Level = in.Level
			out.Rule = in.Rule
		} else {
			if in.Level != out.Level {
				out.Level = "exploration"
			}
			out.Rule += " || " + n + ": " + in.Rule
		}
		out.Assumptions = uniq(out.Assumptions, in.Assumptions)
		out.Real = uniq(out.Real, in.Real)
		out.Stub = uniq(out.Stub, in.Stub)
		out.Kinds = uniq(out.Kinds, in.Kinds)
	}
	return out
}
