#!/usr/bin/env python3
"""Generate /verif/MANIFEST.json from the table below (single source of truth)."""
import json, os
BASE_CMD = "cd /repo && export GOFLAGS=-mod=mod GOPROXY=off GOSUMDB=off GOTOOLCHAIN=local && go test -mod=mod -json -vet=off -count=1 -timeout 25m ./..."
claims = json.load(open('/verif/tools/claims.json'))
props = [json.loads(l) for l in open('/verif/properties.jsonl')]
checks = []
na = []
for p in props:
    pid = p['id']
    c = claims.get(pid)
    if not c or c.get('not_applicable') or c.get('not_built'):
        na.append({"property_id": pid, "reason": (c or {}).get('reason', 'check not built yet in this session')})
        continue
    checks.append({
        "property_id": pid,
        "quick_cmd": f"./check {pid} --tier quick",
        "thorough_cmd": f"./check {pid} --tier thorough",
        "evidence_file": f"/verif/evidence/{pid}.json",
        "replay_cmd_template": "./check --replay {path}",
        "engine": c['engine'],
        "level_claimed": {"category": c['level'], "text": c['text'], "design_ref": c['design_ref']},
        "level_note": c['note'],
        "technique": c['technique'],
    })
engines = {}
for pid, c in claims.items():
    if c.get('engine'):
        for e in c['engine'].split('+'):
            engines.setdefault(e, []).append(pid)
m = {
    "version": 1,
    "setup_cmd": "./setup.sh",
    "hooks": {
        "guard": "verif-overlay",
        "enable": "no hook commits in /repo: every check runs tools/instrument over /repo's current tree and builds with `go build -overlay` (AST-instrumented copies + /verif/overlay/** as virtual packages under /repo/zzverif); see build.sh",
        "baseline_off_cmd": BASE_CMD,
        "source_commits": [],
        "add_only": True,
    },
    "engines": [{"name": e, "path": {"crashsim": "/verif/overlay/repsim/crash.go"}.get(e, f"/verif/overlay/{e}"), "serves_properties": sorted(ps), "kind_free_text": "deterministic simulation engine inside the single verifsim binary"} for e, ps in sorted(engines.items())],
    "checks": checks,
    "not_applicable": na,
    "notes": "Technique: deterministic simulation with fault injection. One integer (VERIF_SEED) decides every generated plan, schedule and fault. See DESIGN.md.",
}
json.dump(m, open('/verif/MANIFEST.json', 'w'), indent=1)
print("checks:", [c['property_id'] for c in checks], "not claimed:", [n['property_id'] for n in na])
