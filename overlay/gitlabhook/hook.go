// Package gitlabhook is the R-gitlab seam: bridge/gitlab's gitlab.NewClient call is
// rewritten (in the overlay copy only) to gitlabhook.NewClient, which injects the
// simulated HTTP transport and a zero back-off when a simulator installed one.
package gitlabhook

import (
	"context"
	"net/http"
	"sync"
	"time"

	"github.com/xanzy/go-gitlab"
)

var (
	mu        sync.Mutex
	transport http.RoundTripper
)

// SetTransport installs (or with nil removes) the simulated transport.
func SetTransport(rt http.RoundTripper) { mu.Lock(); transport = rt; mu.Unlock() }

type noLimit struct{}

func (noLimit) Wait(context.Context) error { return nil }

func NewClient(token string, options ...gitlab.ClientOptionFunc) (*gitlab.Client, error) {
	mu.Lock()
	rt := transport
	mu.Unlock()
	if rt != nil {
		options = append(options,
			gitlab.WithHTTPClient(&http.Client{Transport: rt}),
			gitlab.WithCustomBackoff(func(min, max time.Duration, attemptNum int, resp *http.Response) time.Duration { return 0 }),
			gitlab.WithCustomLimiter(noLimit{}),
		)
	}
	return gitlab.NewClient(token, options...)
}
