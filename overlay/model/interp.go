package model

import (
	"fmt"
	"sort"
	"strings"
)

// Snap is the reference bug state, written from the property statement and doc/.
type Snap struct {
	Id           string
	Title        string
	Status       int
	Labels       []string
	Author       string
	CreateUnix   int64
	EditUnix     int64
	Comments     []SComment
	Actors       []string // sorted set
	Participants []string // sorted set
	Timeline     []STimeline
	OpIds        []string
	OpMeta       map[string]map[string]string // op id -> effective metadata
}

type SComment struct {
	OpId    string
	Author  string
	Message string
	Files   []string
	History []string
}

type STimeline struct {
	Kind string // create, comment, label, status, title
	OpId string
	// payload rendered as a string for comparison
	Payload string
	History []string
}

// Interpret folds the ordered operations into the reference state.
func Interpret(ops []RawOp) *Snap {
	s := &Snap{Status: 1, OpMeta: map[string]map[string]string{}}
	actors := map[string]bool{}
	parts := map[string]bool{}
	labels := []string{}
	commentIdx := map[string]int{}  // op id -> index in Comments
	timelineIdx := map[string]int{} // op id -> index in Timeline (comments only)
	for i, op := range ops {
		s.OpIds = append(s.OpIds, op.Id)
		own := map[string]string{}
		for k, v := range op.F.Metadata {
			own[k] = v
		}
		s.OpMeta[op.Id] = own
		s.EditUnix = op.F.Timestamp
		switch op.Type {
		case OpCreate:
			if i != 0 {
				continue
			}
			s.Id = op.Id
			s.Title = op.F.Title
			s.Author = op.Author
			s.CreateUnix = op.F.Timestamp
			actors[op.Author] = true
			parts[op.Author] = true
			s.Comments = []SComment{{OpId: op.Id, Author: op.Author, Message: op.F.Message, Files: op.F.Files, History: []string{op.F.Message}}}
			commentIdx[op.Id] = 0
			s.Timeline = []STimeline{{Kind: "create", OpId: op.Id}}
			timelineIdx[op.Id] = 0
		case OpAddComment:
			actors[op.Author] = true
			parts[op.Author] = true
			commentIdx[op.Id] = len(s.Comments)
			s.Comments = append(s.Comments, SComment{OpId: op.Id, Author: op.Author, Message: op.F.Message, Files: op.F.Files, History: []string{op.F.Message}})
			timelineIdx[op.Id] = len(s.Timeline)
			s.Timeline = append(s.Timeline, STimeline{Kind: "comment", OpId: op.Id})
		case OpEditComment:
			ci, ok := commentIdx[op.F.Target]
			if !ok {
				continue // unknown or non-comment target: nothing changes
			}
			actors[op.Author] = true
			s.Comments[ci].Message = op.F.Message
			s.Comments[ci].Files = op.F.Files
			s.Comments[ci].History = append(s.Comments[ci].History, op.F.Message)
		case OpSetTitle:
			actors[op.Author] = true
			s.Title = op.F.Title
			s.Timeline = append(s.Timeline, STimeline{Kind: "title", OpId: op.Id, Payload: op.F.Title + "\x00" + op.F.Was})
		case OpSetStatus:
			actors[op.Author] = true
			s.Status = op.F.Status
			s.Timeline = append(s.Timeline, STimeline{Kind: "status", OpId: op.Id, Payload: fmt.Sprint(op.F.Status)})
		case OpLabelChange:
			actors[op.Author] = true
			for _, a := range op.F.Added {
				found := false
				for _, l := range labels {
					if l == a {
						found = true
					}
				}
				if !found {
					labels = append(labels, a)
				}
			}
			for _, r := range op.F.Removed {
				out := labels[:0:0]
				for _, l := range labels {
					if l != r {
						out = append(out, l)
					}
				}
				labels = out
			}
			s.Timeline = append(s.Timeline, STimeline{Kind: "label", OpId: op.Id, Payload: strings.Join(op.F.Added, "\x01") + "\x00" + strings.Join(op.F.Removed, "\x01")})
		case OpSetMetadata:
			if tm, ok := s.OpMeta[op.F.Target]; ok {
				// only operations that precede this one can be targets
				keys := make([]string, 0, len(op.F.NewMetadata))
				for k := range op.F.NewMetadata {
					keys = append(keys, k)
				}
				sort.Strings(keys)
				for _, k := range keys {
					if _, exists := tm[k]; !exists {
						tm[k] = op.F.NewMetadata[k]
					}
				}
			}
		case OpNoOp:
		}
	}
	// comment timeline entries carry the edit history
	for i := range s.Timeline {
		if s.Timeline[i].Kind == "create" || s.Timeline[i].Kind == "comment" {
			c := s.Comments[commentIdx[s.Timeline[i].OpId]]
			s.Timeline[i].Payload = c.Message + "\x00" + strings.Join(c.Files, ",")
			s.Timeline[i].History = c.History
		}
	}
	sort.Strings(labels)
	s.Labels = labels
	s.Actors = sortedKeys(actors)
	s.Participants = sortedKeys(parts)
	return s
}

func sortedKeys(m map[string]bool) []string {
	out := make([]string, 0, len(m))
	for k := range m {
		out = append(out, k)
	}
	sort.Strings(out)
	return out
}

// Diff returns the first field in which two snaps differ ("" if equal). The field
// name doubles as oracle kind for C10.
func (a *Snap) Diff(b *Snap) (string, string) {
	if a.Id != b.Id {
		return "id", fmt.Sprintf("%s vs %s", a.Id, b.Id)
	}
	if a.Title != b.Title {
		return "title", fmt.Sprintf("%q vs %q", a.Title, b.Title)
	}
	if a.Status != b.Status {
		return "status", fmt.Sprintf("%d vs %d", a.Status, b.Status)
	}
	if !eqStrs(a.Labels, b.Labels) {
		return "labels", fmt.Sprintf("%q vs %q", a.Labels, b.Labels)
	}
	if len(a.Comments) != len(b.Comments) {
		return "comments", fmt.Sprintf("%d vs %d comments", len(a.Comments), len(b.Comments))
	}
	for i := range a.Comments {
		x, y := a.Comments[i], b.Comments[i]
		if x.OpId != y.OpId || x.Author != y.Author || x.Message != y.Message || !eqStrs(x.Files, y.Files) {
			return "comments", fmt.Sprintf("comment %d: %+v vs %+v", i, x, y)
		}
	}
	if !eqStrs(a.Actors, b.Actors) || !eqStrs(a.Participants, b.Participants) || a.Author != b.Author {
		return "actors-participants", fmt.Sprintf("actors %v/%v participants %v/%v author %s/%s", short(a.Actors), short(b.Actors), short(a.Participants), short(b.Participants), a.Author, b.Author)
	}
	if len(a.Timeline) != len(b.Timeline) {
		return "timeline", fmt.Sprintf("%d vs %d entries", len(a.Timeline), len(b.Timeline))
	}
	for i := range a.Timeline {
		x, y := a.Timeline[i], b.Timeline[i]
		if x.Kind != y.Kind || x.OpId != y.OpId || x.Payload != y.Payload || !eqStrs(x.History, y.History) {
			return "timeline", fmt.Sprintf("entry %d: %+v vs %+v", i, x, y)
		}
	}
	if !eqStrs(a.OpIds, b.OpIds) {
		return "op-order", fmt.Sprintf("%v vs %v", short(a.OpIds), short(b.OpIds))
	}
	for id, m := range a.OpMeta {
		n := b.OpMeta[id]
		if len(m) != len(n) {
			return "metadata-overridden", fmt.Sprintf("op %s: %v vs %v", id[:7], m, n)
		}
		for k, v := range m {
			if n[k] != v {
				return "metadata-overridden", fmt.Sprintf("op %s key %q: %q vs %q", id[:7], k, v, n[k])
			}
		}
	}
	if a.CreateUnix != b.CreateUnix || a.EditUnix != b.EditUnix {
		return "times", fmt.Sprintf("create %d/%d edit %d/%d", a.CreateUnix, b.CreateUnix, a.EditUnix, b.EditUnix)
	}
	return "", ""
}

func eqStrs(a, b []string) bool {
	if len(a) != len(b) {
		return false
	}
	for i := range a {
		if a[i] != b[i] {
			return false
		}
	}
	return true
}

func short(ids []string) []string {
	out := make([]string, len(ids))
	for i, s := range ids {
		if len(s) > 7 {
			out[i] = s[:7]
		} else {
			out[i] = s
		}
	}
	return out
}
