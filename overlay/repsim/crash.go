package repsim

import (
	"fmt"
	"io"
	"os"
	"path/filepath"
	"sort"
	"strings"

	"github.com/MichaelMure/git-bug/entities/bug"
	"github.com/MichaelMure/git-bug/entities/identity"
	"github.com/MichaelMure/git-bug/entity"
	"github.com/MichaelMure/git-bug/zzverif/model"
	"github.com/MichaelMure/git-bug/zzverif/sim"
	"github.com/MichaelMure/git-bug/zzverif/verifrt"
)

// CrashEngine (crashsim) decides C06: for a generated scenario and a target write
// action it crashes the process at every storage mutation (and every torn variant of
// a file write), reopens, and checks old-or-new state, redo and clocks.
type CrashEngine struct{ Engine }

func (e *CrashEngine) Name() string { return "crashsim" }

func init() {
	sim.Register(&CrashEngine{}, "C06")
}

func (e *CrashEngine) Describe(prop string) sim.PropInfo {
	if prop == "C02" || prop == "C04" {
		info := (&Engine{}).Describe(prop)
		info.Level = "fault_enumeration"
		info.Rule = "generated scenarios (2 replicas, 1 hub, 4-14 fault-free set-up steps) each ending in one pull or merge on replica 0 whose local entities may be behind, ahead or diverged; the target's storage calls are counted in a fault-free run and then EVERY read call and EVERY mutation (sampled only above 120) is executed as that one call returning an I/O error, from a restored copy of the pre-state, the process going on afterwards; evaluations = error cases; non-trivial = scenario whose target issued at least 5 mutations; distinct = distinct (scenario log hash)"
		info.Kinds = []string{"entity-became-unreadable", "operation-lost", "edit-after-merge-dropped-ops"}
		return info
	}
	info := (&Engine{}).Describe("C01")
	info.Level = "fault_enumeration"
	info.Rule = "generated scenarios (2 replicas, 1 hub, 4-14 fault-free set-up steps) each ending in one target write action on replica 0 (new bug, edit+commit with one or several authors, new identity, identity mutation, merge, pull); the target's storage mutations (RepoData/RepoClock calls and every file-system call on .git/git-bug) are counted in a fault-free run and then EVERY mutation index k (sampled only above 200) and every torn variant of a file write at k (nothing / all / 1 byte / half / all but one byte) is executed as a crash from a restored copy of the pre-state; evaluations = crash cases; non-trivial = scenario whose target issued at least 5 mutations; distinct = distinct (scenario log hash)"
	info.Kinds = []string{"reopen-failed", "entity-unreadable-after-crash", "third-state", "redo-failed", "redo-not-equivalent", "clock-unreadable", "clock-below-stored"}
	info.Assumptions = append(info.Assumptions,
		"crash = process crash: completed calls survive, nothing later happens; go-git's own object and ref writes are atomic units (refs are rewritten in place by go-git v5.12, that window is below the enumerated granularity)",
		"crash points are not placed inside repository/cache opening (its mutations come from two goroutines)",
		"redo is required only for entities still in their pre-state; an entity already in its post-state counts as completed")
	return info
}

func (e *CrashEngine) Generate(prop, tier string, seed uint64, run int) *sim.Plan {
	rs := sim.Mix(seed, uint64(run)+0xC6C6)
	r := sim.NewRand(rs)
	p := &sim.Plan{Property: prop, Engine: "crashsim", Tier: tier, Seed: seed, Run: run, RunSeed: rs, Cfg: map[string]interface{}{}}
	level0 := "entity"
	if r.Chance(0.55) {
		level0 = "cache"
	}
	p.Cfg["replicas"] = 2
	p.Cfg["hubs"] = 1
	p.Cfg["levels"] = []interface{}{level0, "entity"}
	p.Cfg["faults"] = false
	p.Cfg["skews"] = []interface{}{0, 0}
	p.Cfg["permute_refs"] = false
	p.Cfg["extra_idents"] = r.Intn(2)
	p.Cfg["loaders"] = true

	id := 0
	add := func(op string, rep int) *sim.Step {
		id++
		p.Steps = append(p.Steps, sim.Step{Id: id, Op: op, R: rep, D: int64(r.Range(1, 600)), B: r.Intn(64), A: r.Intn(8)})
		return &p.Steps[len(p.Steps)-1]
	}
	fill := func(st *sim.Step) {
		switch st.Op {
		case "newbug":
			st.S, st.T = genTitle(r), genMessage(r)
			if r.Chance(0.2) {
				st.L = genFiles(r)
			}
		case "edit":
			n := r.Range(1, 5)
			for i := 0; i < n; i++ {
				sub := genSub(r, st.Id*100+i)
				if sub.K == "invalid" {
					sub.K, sub.S = "comment", "x"
				}
				st.Sub = append(st.Sub, sub)
			}
			st.N = 1
		case "identmut":
			st.K = []string{"name", "email", "login", "avatar", "meta"}[r.Intn(5)]
			st.S = word(r) + " " + word(r)
			st.N = r.Intn(16)
		case "newident":
			st.S = word(r)
		}
	}
	// set-up: a small shared history
	fill(add("newbug", 0))
	add("push", 0)
	add("pull", 1)
	n := r.Range(0, 8)
	for i := 0; i < n; i++ {
		op := []string{"newbug", "edit", "edit", "push", "pull", "identmut"}[r.Intn(6)]
		fill(add(op, r.Intn(2)))
	}
	target := []string{"newbug", "edit", "edit", "identmut", "newident", "pull", "pull", "pull", "merge"}[r.Intn(9)]
	if prop == "C02" || prop == "C04" {
		target = []string{"pull", "pull", "merge"}[r.Intn(3)]
		p.Cfg["mode"] = "ioerror"
	}
	if target == "pull" || target == "merge" {
		// make sure there is something to merge: the peer edits and pushes, replica 0 may diverge
		k := r.Range(1, 3)
		for i := 0; i < k; i++ {
			fill(add([]string{"edit", "newbug", "identmut"}[r.Intn(3)], 1))
		}
		add("push", 1)
		if r.Chance(0.6) {
			fill(add("edit", 0))
		}
		if target == "merge" {
			add("fetch", 0)
		}
	}
	foreign := false
	if (target == "pull" || target == "merge") && r.Chance(0.2) {
		foreign = true
		// the merge that has to be refused: a foreign history published under the id of a local,
		// never pushed bug with two commits
		fill(add("newbug", 0))
		fill(add("edit", 0))
		add("foreign", 0)
		if target == "merge" {
			add("fetch", 0)
		}
	}
	tgt := add(target, 0)
	fill(tgt)
	if target == "pull" && !foreign && r.Chance(0.5) && prop != "C02" && prop != "C04" { // (C02: the process goes on after the error, and the one-call API abandons its goroutines at the first error) // (the one-call API stops at the first refused entity and reports an error: nothing to enumerate)
		tgt.K = "pull-api" // the one-call API (identity.Pull + bug.Pull, RepoCache.Pull): fetch and merge in one interrupted action
	}
	if target == "edit" && r.Chance(0.5) {
		// a staging area with two authors taking turns is written as several packs under one ref
		// update: the crash points between the packs are the interesting ones
		p.Cfg["extra_idents"] = 1
		for len(tgt.Sub) < 3 {
			sub := genSub(r, tgt.Id*100+len(tgt.Sub))
			sub.K, sub.S, sub.L = "comment", "turn "+word(r), nil
			tgt.Sub = append(tgt.Sub, sub)
		}
		for i := range tgt.Sub {
			tgt.Sub[i].A = []int{0, 7}[i%2]
		}
	}
	return p
}

func copyTree(src, dst string) error {
	return filepath.Walk(src, func(p string, info os.FileInfo, err error) error {
		if err != nil {
			return err
		}
		rel, _ := filepath.Rel(src, p)
		out := filepath.Join(dst, rel)
		if info.IsDir() {
			return os.MkdirAll(out, 0o755)
		}
		if !info.Mode().IsRegular() {
			return nil
		}
		in, err := os.Open(p)
		if err != nil {
			return err
		}
		defer in.Close()
		o, err := os.OpenFile(out, os.O_CREATE|os.O_WRONLY|os.O_TRUNC, info.Mode().Perm())
		if err != nil {
			return err
		}
		if _, err := io.Copy(o, in); err != nil {
			o.Close()
			return err
		}
		return o.Close()
	})
}

// entitySigs gives a content signature per entity of a replica, read through the raw handle.
func entitySigs(raw model.Reader) map[string]string {
	out := map[string]string{}
	refs, _ := raw.ListRefs("refs/bugs/")
	for _, ref := range refs {
		bo := decodeBug(raw, ref)
		if bo.Err != nil {
			out["bug:"+bo.Id] = "ERR:" + bo.Err.Error()
			continue
		}
		out["bug:"+bo.Id] = strings.Join(bo.Order, ",")
	}
	irefs, _ := raw.ListRefs("refs/identities/")
	for _, ref := range irefs {
		chain, err := model.ReadIdentity(raw, ref)
		if err != nil {
			out["identity:"+model.RefId(ref)] = "ERR:" + err.Error()
			continue
		}
		var parts []string
		for _, v := range chain {
			var md []string
			for k, val := range v.Metadata {
				md = append(md, k+"="+val)
			}
			sort.Strings(md)
			parts = append(parts, fmt.Sprintf("%s|%s|%s|%s|%s|%d", v.Name, v.Email, v.Login, v.AvatarUrl, strings.Join(md, ";"), len(v.Keys)))
		}
		out["identity:"+model.RefId(ref)] = strings.Join(parts, " >> ")
	}
	return out
}

func (e *CrashEngine) Execute(p *sim.Plan, keepLog bool) (res *sim.RunResult) {
	res = &sim.RunResult{}
	w := sim.NewWorld(p.RunSeed, keepLog)
	defer w.Close()
	x := &run{e: &e.Engine, p: p, w: w, res: res, prop: p.Property, faults: false,
		ledger: map[string]*ledgerOp{}, seenCommits: map[string]bool{}, files: map[string][]byte{},
		orders: map[string][][]string{}, viol: map[string]bool{}, ntProbes: map[string]bool{}}
	defer func() {
		if r := recover(); r != nil {
			verifrt.RecordPanic("crashsim", r)
			res.HarnessErr = fmt.Sprintf("panic: %v", r)
			for _, pr := range verifrt.TakePanics() {
				res.HarnessErr += "\n" + pr.Stack
			}
		}
		if res.LogHash == "" {
			res.LogHash = w.Log.Hash()
		}
		res.Faults = w.Stats.Faults
		res.Probes = w.Stats.Probes
		if keepLog {
			res.Trace = w.Log.Lines
		}
	}()
	if p.CfgStr("mode", "") == "ioerror" {
		x.prop = "C06" // the per-step monitors of C02 judge fault-free pulls; this engine brings its own oracle
	}
	if len(p.Steps) < 2 {
		res.HarnessErr = "plan too short"
		return res
	}
	if err := x.setup(); err != nil {
		res.HarnessErr = "setup: " + err.Error()
		return res
	}
	target := p.Steps[len(p.Steps)-1]
	target.R = 0
	for i := range p.Steps[:len(p.Steps)-1] {
		x.step = i
		x.execStep(&p.Steps[i])
		if res.HarnessErr != "" {
			return res
		}
	}
	x.step = len(p.Steps) - 1
	rs := x.reps[0]
	r := rs.r
	w.Act(r)
	// staged operations do not survive a close; commit them so the pre-state is on disk
	x.stepCommit(rs, &sim.Step{})
	if err := r.CloseClean(); err != nil {
		res.HarnessErr = "close before snapshot: " + err.Error()
		return res
	}
	rs.staged = map[string]bool{}
	snap := filepath.Join(w.Root, "snapshot-r0")
	if err := copyTree(r.Dir, snap); err != nil {
		res.HarnessErr = "snapshot: " + err.Error()
		return res
	}
	restore := func() error {
		if err := os.RemoveAll(r.Dir); err != nil {
			return err
		}
		return copyTree(snap, r.Dir)
	}
	wallBase := r.Wall
	runTarget := func() error {
		w.Act(r)
		r.Wall = wallBase + 100 // the repeated action is the same action: same wall clock, same nonces
		sim.SetRandStep(uint64(target.Id))
		st := target // fresh copy: steps are not mutated, but be safe
		return x.doStep(rs, &st, nil)
	}

	setupHash := w.Log.Hash()
	refHash := ""
	defer func() {
		// The log hash of a crash scenario covers the set-up, the multiset of the target's storage
		// mutations and the number of cases. The per-case logs are left out: for cache-level
		// merges git-bug's own producer and consumer goroutines interleave their calls freely, so
		// the identity of "the k-th mutation" is not a function of the plan (the oracle does not
		// depend on it: every prefix of every interleaving must leave old-or-new states).
		res.LogHash = model.Sha256Hex([]byte(setupHash + "|" + refHash))[:16]
	}()
	// ---- reference run (fault-free)
	if err := r.Open(); err != nil {
		res.HarnessErr = "open for reference run: " + err.Error()
		return res
	}
	rs.alive = true
	pre := entitySigs(r.Raw)
	r.C.KeepTrace = true
	base := r.C.MutCount()
	baseReads := r.C.ReadCount()
	errRef := runTarget()
	M := r.C.MutCount() - base
	refReads := r.C.ReadCount() - baseReads
	trace := append([]string{}, r.C.Trace...)
	{
		norm := make([]string, len(trace))
		for i, t := range trace {
			f := strings.Fields(t)
			switch {
			case len(f) >= 2 && (f[0] == "Witness" || f[0] == "fs.Write"):
				norm[i] = f[0] + " " + f[1]
			default:
				norm[i] = t
			}
		}
		// as a SET: how often a clock file is rewritten depends on the order in which git-bug meets
		// the values (Go map order; it writes only when the value is higher)
		sort.Strings(norm)
		uniq := norm[:0]
		for i, t := range norm {
			if i == 0 || t != norm[i-1] {
				uniq = append(uniq, t)
			}
		}
		refHash = model.Sha256Hex([]byte(strings.Join(uniq, "\n")))
	}
	if errRef != nil {
		// the target legitimately failed (nothing to edit...): nothing to enumerate
		x.probe("target_failed_fault_free")
		refHash = "" // what a failing target did before it gave up is not part of the run's identity
		w.Log.Note("reference target error: %v", errRef)
		w.Log.EndStep("reference", true)
		return res
	}
	x.stepCommit(rs, &sim.Step{})
	post := entitySigs(r.Raw)
	_ = r.CloseClean()
	w.Log.EndStep(fmt.Sprintf("reference M=%d", M), true)
	if M >= 5 {
		x.ntProbes["m5"] = true
	}
	x.probe("target_" + target.Op)
	changedAny := false
	for k, v := range post {
		if pre[k] != v {
			changedAny = true
		}
	}
	if changedAny {
		x.probe("target_changed_state")
	}

	if p.CfgStr("mode", "") == "ioerror" {
		e.ioErrorCases(x, rs, target.Op, restore, runTarget, wallBase, pre, M, refReads)
		return res
	}
	// ---- crash cases
	type ccase struct {
		k    int
		torn string
		ev   string // the mutation at index k of the reference run, normalised ...
		occ  int    // ... and which of its occurrences it is
	}
	var cases []ccase
	if _, pinned := p.Cfg["crash_k"]; pinned {
		cases = []ccase{{k: p.CfgInt("crash_k", 0), torn: p.CfgStr("torn", ""), ev: p.CfgStr("crash_ev", ""), occ: p.CfgInt("crash_occ", 0)}}
	} else {
		stride := 1
		if M > 200 {
			stride = (M + 199) / 200
		}
		for k := 0; k < M; k += stride {
			cases = append(cases, ccase{k: k})
			if k < len(trace) && strings.HasPrefix(trace[k], "fs.Write ") {
				var name string
				var n int
				fmt.Sscanf(strings.TrimPrefix(trace[k], "fs.Write "), "%s %d bytes", &name, &n)
				cases = append(cases, ccase{k: k, torn: "new"})
				if strings.HasPrefix(name, "tmp:") {
					// clock values (1-2 digits) arrive in Go map order: same variants whatever the size
					cases = append(cases, ccase{k: k, torn: "prefix:1"})
				} else {
					// sizes of gob-encoded cache files vary by a byte between executions: relative cuts
					if n >= 2 {
						cases = append(cases, ccase{k: k, torn: "prefix:1"})
					}
					if n >= 4 {
						cases = append(cases, ccase{k: k, torn: "prefix:half"}, ccase{k: k, torn: "prefix:allbut1"})
					}
				}
			}
		}
	}
	if _, pinned := p.Cfg["crash_k"]; !pinned {
		// name every case by the event it stands for in the reference run
		for i := range cases {
			if k := cases[i].k; k < len(trace) {
				cases[i].ev = sim.NormEvent(trace[k])
				for j := 0; j <= k; j++ {
					if sim.NormEvent(trace[j]) == cases[i].ev {
						cases[i].occ++
					}
				}
			}
		}
	}
	for _, c := range cases {
		res.Cases++
		if err := restore(); err != nil {
			res.HarnessErr = "restore: " + err.Error()
			return res
		}
		r.Wall = wallBase
		if err := r.Open(); err != nil {
			res.HarnessErr = fmt.Sprintf("open before crash case k=%d: %v", c.k, err)
			return res
		}
		rs.staged = map[string]bool{}
		r.C.CrashAt = r.C.MutCount() + c.k
		if c.ev != "" {
			r.C.CrashEvent, r.C.CrashOcc = c.ev, c.occ
		}
		r.C.Torn = c.torn
		errT := runTarget()
		crashed := r.C.Crashed
		r.Kill()
		w.Stats.Fault("crash")
		if c.torn != "" {
			w.Stats.Fault("torn-write")
		}
		what := "?"
		if c.k < len(trace) {
			what = trace[c.k]
		}
		pin := map[string]interface{}{"crash_k": c.k, "torn": c.torn, "crash_ev": c.ev, "crash_occ": c.occ}
		viol := func(kind, format string, a ...interface{}) {
			if x.viol[kind] {
				return
			}
			x.viol[kind] = true
			d := fmt.Sprintf(format, a...)
			res.Violations = append(res.Violations, sim.Violation{Property: "C06", Kind: kind, Step: x.step, Pin: pin,
				Detail: fmt.Sprintf("target %s crashed at mutation %d/%d (%s) torn=%q: %s", target.Op, c.k, M, what, c.torn, d)})
		}
		if !crashed {
			// the mutation sequence differed from the reference run (never expected)
			w.Log.Note("case k=%d: crash point not reached (target err %v)", c.k, errT)
			x.probe("crash_point_not_reached")
			w.Log.EndStep(fmt.Sprintf("case %d %s", c.k, c.torn), true)
			continue
		}
		// ---- reopen
		if err := r.Open(); err != nil {
			viol("reopen-failed", "the repository cannot be opened again: %v", err)
			w.Log.EndStep(fmt.Sprintf("case %d %s", c.k, c.torn), true)
			continue
		}
		rs.alive = true
		// ---- everything readable
		obsv := r.Observer()
		okRead := true
		for se := range bug.ReadAll(obsv) {
			if se.Err != nil {
				viol("entity-unreadable-after-crash", "bug.ReadAll fails after the crash: %v", se.Err)
				okRead = false
				break
			}
		}
		for se := range identity.ReadAllLocal(obsv) {
			if se.Err != nil {
				viol("entity-unreadable-after-crash", "identity.ReadAllLocal fails after the crash: %v", se.Err)
				okRead = false
				break
			}
		}
		// ---- old or new, never a mixture
		now := entitySigs(r.Raw)
		needRedo := false
		for k, v := range now {
			switch {
			case v == post[k]:
			case v == pre[k]:
				if pre[k] != post[k] {
					needRedo = true
				}
			default:
				viol("third-state", "%s is neither in its old nor in its new state: now %q, old %q, new %q", k, sim.Trunc(v, 200), sim.Trunc(pre[k], 200), sim.Trunc(post[k], 200))
			}
		}
		for k := range post {
			if _, ok := now[k]; !ok {
				if _, was := pre[k]; was {
					viol("third-state", "%s disappeared", k)
				} else {
					needRedo = true
				}
			}
		}
		for k := range pre {
			if _, ok := now[k]; !ok {
				viol("third-state", "%s disappeared", k)
			}
		}
		// ---- clocks usable and not below what is stored
		if clocks, err := r.Raw.AllClocks(); err != nil {
			viol("clock-unreadable", "the logical clocks cannot be read after the crash: %v", err)
		} else {
			var maxE, maxC uint64
			refs, _ := r.Raw.ListRefs("refs/bugs/")
			for _, ref := range refs {
				if bo := decodeBug(r.Raw, ref); bo.Ent != nil {
					if m := bo.Ent.MaxEdit(); m > maxE {
						maxE = m
					}
					if m := bo.Ent.MaxCreate(); m > maxC {
						maxC = m
					}
				}
			}
			get := func(n string) uint64 {
				if c, ok := clocks[n]; ok {
					return uint64(c.Time())
				}
				return 0
			}
			if maxE > 0 && get("bugs-edit") < maxE {
				viol("clock-below-stored", "edit clock is %d but a reachable commit holds edit time %d", get("bugs-edit"), maxE)
			}
			if maxC > 0 && get("bugs-create") < maxC {
				viol("clock-below-stored", "creation clock is %d but a reachable commit holds creation time %d", get("bugs-create"), maxC)
			}
		}
		// ---- repeating the interrupted action completes it
		if okRead && needRedo {
			x.probe("redo_needed")
			if err := runTarget(); err != nil {
				viol("redo-failed", "repeating the interrupted action fails: %v", err)
			} else {
				x.stepCommit(rs, &sim.Step{})
				after := entitySigs(r.Raw)
				// a new identity's id depends on the clock values at creation time, which a
				// crashed attempt may have advanced: new entities are matched by content
				var extraPost, extraAfter []string
				for k, v := range post {
					if _, was := pre[k]; !was && strings.HasPrefix(k, "identity:") {
						extraPost = append(extraPost, v)
						continue
					}
					if after[k] != v {
						viol("redo-not-equivalent", "%s after the repeated action is %q, uninterrupted result is %q", k, sim.Trunc(after[k], 200), sim.Trunc(v, 200))
					}
				}
				for k, v := range after {
					if _, was := pre[k]; !was && strings.HasPrefix(k, "identity:") {
						extraAfter = append(extraAfter, v)
						continue
					}
					if _, ok := post[k]; !ok {
						viol("redo-not-equivalent", "%s exists after the repeated action but not after the uninterrupted one", k)
					}
				}
				sort.Strings(extraPost)
				sort.Strings(extraAfter)
				if strings.Join(extraPost, "\n") != strings.Join(extraAfter, "\n") {
					viol("redo-not-equivalent", "new identities after the repeated action %q, after the uninterrupted one %q", extraAfter, extraPost)
				}
			}
		} else if okRead {
			x.probe("already_complete_or_untouched")
		}
		_ = r.CloseClean()
		rs.alive = false
		w.Log.EndStep(fmt.Sprintf("case %d %s", c.k, c.torn), true)
	}
	for _, pr := range verifrt.TakePanics() {
		x.probe("panic_observed")
		_ = pr
	}
	if x.ntProbes["m5"] {
		res.NTKey = "nt:" + target.Op
	}
	res.Lamport = uint64(M)
	return res
}


// ioErrorCases (C02): the target pull or merge is executed once per read call and once per
// mutation it issued in the reference run, that one call returning an I/O error; the process
// goes on. Whatever the pull then reports, every entity that was readable before is readable
// and holds every operation or version it held before.
func (e *CrashEngine) ioErrorCases(x *run, rs *repState, op string, restore func() error, runTarget func() error, wallBase int64, pre map[string]string, M, R int) {
	r, w, res := rs.r, x.w, x.res
	type ecase struct {
		class string
		k     int
	}
	var cases []ecase
	if _, pinned := x.p.Cfg["err_k"]; pinned {
		cases = []ecase{{x.p.CfgStr("err_class", "read"), x.p.CfgInt("err_k", 0)}}
	} else {
		for _, cn := range []struct {
			class string
			n     int
		}{{"read", R}, {"any", M}} {
			stride := 1
			if cn.n > 120 {
				stride = (cn.n + 119) / 120
			}
			for k := 0; k < cn.n; k += stride {
				cases = append(cases, ecase{cn.class, k})
			}
		}
	}
	for _, c := range cases {
		res.Cases++
		if err := restore(); err != nil {
			res.HarnessErr = "restore: " + err.Error()
			return
		}
		r.Wall = wallBase
		if err := r.Open(); err != nil {
			res.HarnessErr = fmt.Sprintf("open before error case %s %d: %v", c.class, c.k, err)
			return
		}
		rs.alive = true
		rs.staged = map[string]bool{}
		if r.Cache != nil {
			// a session that has been running for a while: the bugs are loaded in the cache
			w.Act(r)
			for _, id := range r.Cache.Bugs().AllIds() {
				_, _ = r.Cache.Bugs().Resolve(id)
			}
		}
		goBase := verifrt.LiveGoroutines()
		r.C.ArmErr(c.class, c.k, 1)
		errT := runTarget()
		fired := r.C.DisarmErr()
		for _, pr := range verifrt.TakePanicsQuiesced(goBase) {
			x.probe("panic_observed")
			w.Log.Note("panic in %s: %s", pr.Site, pr.Value)
		}
		w.Log.Note("error case %s %d: fired %d, target error %v", c.class, c.k, fired, errT)
		if fired == 0 {
			x.probe("error_point_not_reached")
		} else {
			w.Stats.Fault("ioerr-" + c.class)
			now := entitySigs(r.Raw)
			pin := map[string]interface{}{"err_class": c.class, "err_k": c.k}
			viol := func(kind, format string, a ...interface{}) {
				if x.viol[kind] {
					return
				}
				x.viol[kind] = true
				res.Violations = append(res.Violations, sim.Violation{Property: x.p.Property, Kind: kind, Step: x.step, Pin: pin,
					Detail: fmt.Sprintf("%s in which the %s call number %d failed with an I/O error (the %s reported: %v): ", op, map[string]string{"read": "read", "any": "storage mutation"}[c.class], c.k, op, errT) + fmt.Sprintf(format, a...)})
			}
			for k, was := range pre {
				if strings.HasPrefix(was, "ERR:") {
					continue
				}
				v, ok := now[k]
				switch {
				case !ok:
					viol("entity-became-unreadable", "%s is gone", k)
				case strings.HasPrefix(v, "ERR:"):
					viol("entity-became-unreadable", "%s was readable before and is not any more: %s", k, v)
				default:
					sep := ","
					if strings.HasPrefix(k, "identity:") {
						sep = " >> "
					}
					have := map[string]bool{}
					for _, o := range strings.Split(v, sep) {
						have[o] = true
					}
					for _, o := range strings.Split(was, sep) {
						if !have[o] {
							viol("operation-lost", "%s held %q before and holds %q now", k, sim.Trunc(was, 200), sim.Trunc(v, 200))
							break
						}
					}
				}
			}
		}
		// the process goes on: an edit made through the cache afterwards builds on what the pull left
		if fired > 0 && r.Cache != nil && x.p.Property == "C02" {
			afterPull := entitySigs(r.Raw)
			var ids []string
			for k := range afterPull {
				if strings.HasPrefix(k, "bug:") && !strings.HasPrefix(afterPull[k], "ERR:") {
					ids = append(ids, strings.TrimPrefix(k, "bug:"))
				}
			}
			sort.Strings(ids)
			for _, id := range ids {
				w.Act(r)
				bc, err := r.Cache.Bugs().Resolve(entity.Id(id))
				if err != nil {
					continue
				}
				if _, _, err := bc.AddComment("after the pull"); err != nil {
					continue
				}
				if err := bc.Commit(); err != nil {
					continue
				}
				x.probe("edit_after_a_pull_that_met_an_error")
			}
			afterEdit := entitySigs(r.Raw)
			for _, id := range ids {
				have := map[string]bool{}
				for _, o := range strings.Split(afterEdit["bug:"+id], ",") {
					have[o] = true
				}
				for _, o := range strings.Split(afterPull["bug:"+id], ",") {
					if !have[o] && !x.viol["edit-after-merge-dropped-ops"] {
						x.viol["edit-after-merge-dropped-ops"] = true
						res.Violations = append(res.Violations, sim.Violation{Property: "C02", Kind: "edit-after-merge-dropped-ops", Step: x.step,
							Pin: map[string]interface{}{"err_class": c.class, "err_k": c.k},
							Detail: fmt.Sprintf("%s in which the %s call number %d failed with an I/O error, then a comment added through the same cache: bug %s held %q after the %s and holds %q after the edit", op, c.class, c.k, id[:7], sim.Trunc(afterPull["bug:"+id], 160), op, sim.Trunc(afterEdit["bug:"+id], 160))})
					}
				}
			}
		}
		_ = r.CloseClean()
		rs.alive = false
		w.Log.EndStep(fmt.Sprintf("error case %s %d", c.class, c.k), true)
	}
}
