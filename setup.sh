#!/bin/bash
# setup_cmd: build the instrumenter and warm the Go build cache. Offline, from files on disk only.
set -u
cd /verif
export GOFLAGS=-mod=mod GOPROXY=off GOSUMDB=off GOTOOLCHAIN=local CGO_ENABLED=0
mkdir -p bin evidence replays
(cd tools/instrument && go build -o /verif/bin/instrument .) || { echo "setup: cannot build instrumenter" >&2; exit 2; }
./build.sh /verif/bin/verifsim.warm || exit 2
rm -f /verif/bin/verifsim.warm /verif/bin/verifsim.warm.stats.json
echo "setup ok"
