package sim

import (
	"context"
	"errors"
	"fmt"
	"io"
	"sync"

	"github.com/go-git/go-git/v5/plumbing"
	"github.com/go-git/go-git/v5/plumbing/format/packfile"
	"github.com/go-git/go-git/v5/plumbing/protocol/packp"
	"github.com/go-git/go-git/v5/plumbing/revlist"
	"github.com/go-git/go-git/v5/utils/ioutil"
	"github.com/go-git/go-git/v5/plumbing/storer"
	"github.com/go-git/go-git/v5/plumbing/transport"
	"github.com/go-git/go-git/v5/plumbing/transport/client"
	"github.com/go-git/go-git/v5/plumbing/transport/server"
)

// Net is the simulated network: the sim:// protocol served by go-git's own in-process
// server over the hubs' on-disk storers, wrapped by a fault-injecting session shim.
type Net struct {
	mu   sync.Mutex
	hubs map[string]storer.Storer
	srv  transport.Transport

	// Fault armed for the next exchange (set by the engine around one push/fetch):
	// "" | "loss" | "mid-advert" | "mid-pack" | "lost-ack" | "partial-push:<n>"
	Fault string
	Fired map[string]int
	// Partitioned links: key "client|hub"
	Client    string
	Partition map[string]bool
}

var ErrNetLoss = errors.New("simulated network: message lost")
var ErrNetPartition = errors.New("simulated network: partitioned")
var ErrNetMid = errors.New("simulated network: connection reset mid-transfer")
var ErrNetAck = errors.New("simulated network: acknowledgement lost")

var theNet *Net

// InstallNet registers the sim:// protocol (once per process) and returns the network.
func InstallNet() *Net {
	n := &Net{hubs: map[string]storer.Storer{}, Fired: map[string]int{}, Partition: map[string]bool{}}
	n.srv = server.NewServer(n)
	client.InstallProtocol("sim", n)
	theNet = n
	return n
}

func (n *Net) AddHub(name string, s storer.Storer) {
	n.mu.Lock()
	n.hubs[name] = s
	n.mu.Unlock()
}

// Load implements server.Loader.
func (n *Net) Load(ep *transport.Endpoint) (storer.Storer, error) {
	n.mu.Lock()
	defer n.mu.Unlock()
	s, ok := n.hubs[ep.Host]
	if !ok {
		return nil, transport.ErrRepositoryNotFound
	}
	return s, nil
}

func (n *Net) fire(kind string) {
	n.mu.Lock()
	n.Fired[kind]++
	n.mu.Unlock()
}

func (n *Net) precheck(ep *transport.Endpoint) error {
	n.mu.Lock()
	part := n.Partition[n.Client+"|"+ep.Host]
	f := n.Fault
	n.mu.Unlock()
	if part {
		n.fire("partition")
		return ErrNetPartition
	}
	if f == "loss" {
		n.fire("loss")
		return ErrNetLoss
	}
	return nil
}

func (n *Net) NewUploadPackSession(ep *transport.Endpoint, auth transport.AuthMethod) (transport.UploadPackSession, error) {
	if err := n.precheck(ep); err != nil {
		return nil, err
	}
	s, err := n.srv.NewUploadPackSession(ep, auth)
	if err != nil {
		return nil, err
	}
	sto, _ := n.Load(ep)
	return &upShim{UploadPackSession: s, n: n, sto: sto}, nil
}

func (n *Net) NewReceivePackSession(ep *transport.Endpoint, auth transport.AuthMethod) (transport.ReceivePackSession, error) {
	if err := n.precheck(ep); err != nil {
		return nil, err
	}
	s, err := n.srv.NewReceivePackSession(ep, auth)
	if err != nil {
		return nil, err
	}
	sto, _ := n.Load(ep)
	return &rpShim{ReceivePackSession: s, n: n, sto: sto}, nil
}

type upShim struct {
	transport.UploadPackSession
	n   *Net
	sto storer.Storer
}

func (u *upShim) UploadPack(ctx context.Context, req *packp.UploadPackRequest) (*packp.UploadPackResponse, error) {
	u.n.mu.Lock()
	f := u.n.Fault
	u.n.mu.Unlock()
	if f == "mid-advert" {
		u.n.fire("mid-advert")
		return nil, ErrNetMid
	}
	// go-git's server walks every "have"; a real server ignores the ones it does not know
	var haves []plumbing.Hash
	for _, h := range req.Haves {
		if u.sto.HasEncodedObject(h) == nil {
			haves = append(haves, h)
		}
	}
	req.Haves = haves
	// go-git's own server session encodes with a delta window, which walks the hub's
	// storer from several goroutines at once and races inside go-git's pack index
	// (fatal "concurrent map read and map write"). Encode without deltas instead.
	if req.IsEmpty() {
		return nil, transport.ErrEmptyUploadPackRequest
	}
	if err := req.Validate(); err != nil {
		return nil, err
	}
	havesObjs, err := revlist.Objects(u.sto, req.Haves, nil)
	if err != nil {
		return nil, err
	}
	objs, err := revlist.Objects(u.sto, req.Wants, havesObjs)
	if err != nil {
		return nil, err
	}
	pr, pw := io.Pipe()
	enc := packfile.NewEncoder(pw, u.sto, false)
	go func() {
		_, err := enc.Encode(objs, 0)
		pw.CloseWithError(err)
	}()
	resp := packp.NewUploadPackResponseWithPackfile(req, ioutil.NewContextReadCloser(ctx, pr))
	if f == "mid-pack" {
		u.n.fire("mid-pack")
		// the pack stream breaks after a few bytes
		return packp.NewUploadPackResponseWithPackfile(req, &cutReader{r: resp, left: 40}), nil
	}
	return resp, nil
}

type cutReader struct {
	r    io.ReadCloser
	left int
}

func (c *cutReader) Read(p []byte) (int, error) {
	if c.left <= 0 {
		// let the encoder goroutine behind the stream finish before the failure is reported: it
		// reads the hub's object storage, which the next step may write to
		_, _ = io.Copy(io.Discard, c.r)
		return 0, ErrNetMid
	}
	if len(p) > c.left {
		p = p[:c.left]
	}
	n, err := c.r.Read(p)
	c.left -= n
	return n, err
}

func (c *cutReader) Close() error { return c.r.Close() }

type rpShim struct {
	transport.ReceivePackSession
	n   *Net
	sto storer.Storer
}

func (r *rpShim) ReceivePack(ctx context.Context, req *packp.ReferenceUpdateRequest) (*packp.ReportStatus, error) {
	r.n.mu.Lock()
	f := r.n.Fault
	r.n.mu.Unlock()
	if req.Packfile != nil {
		// go-git's push encodes the pack in a goroutine of its own, which goes on reading the
		// replica's object storage after a failed exchange has returned to the caller. Whatever
		// happens below, read the stream to its end first, so that this goroutine is finished
		// before the simulation moves to the next step (go-git's storage is not goroutine-safe).
		pf := req.Packfile
		defer func() { _, _ = io.Copy(io.Discard, pf) }()
	}
	switch {
	case f == "mid-advert":
		r.n.fire("mid-advert")
		return nil, ErrNetMid
	case len(f) > 13 && f[:13] == "partial-push:":
		// the server applied only the first n commands before the connection died
		var k int
		fmt.Sscanf(f, "partial-push:%d", &k)
		if k < len(req.Commands) {
			r.n.fire("partial-push")
			req.Commands = req.Commands[:k]
			_, _ = r.ReceivePackSession.ReceivePack(ctx, req)
			return nil, ErrNetMid
		}
	}
	rs, err := r.ReceivePackSession.ReceivePack(ctx, req)
	if f == "lost-ack" && err == nil {
		r.n.fire("lost-ack")
		return nil, ErrNetAck
	}
	return rs, err
}
