package bridgesim

import (
	"context"
	"net/http"
	"time"
	"fmt"
	"io"
	"os"
	"path/filepath"
	"sort"
	"strings"
	"unicode"

	_ "github.com/MichaelMure/git-bug/bridge"
	"github.com/MichaelMure/git-bug/bridge/core"
	"github.com/MichaelMure/git-bug/bridge/core/auth"
	"github.com/MichaelMure/git-bug/entities/bug"
	"github.com/MichaelMure/git-bug/entities/identity"
	"github.com/MichaelMure/git-bug/zzverif/gitlabhook"
	"github.com/MichaelMure/git-bug/zzverif/model"
	"github.com/MichaelMure/git-bug/zzverif/sim"
	"github.com/MichaelMure/git-bug/zzverif/verifrt"
)

type Engine struct{}

func (e *Engine) Name() string { return "bridgesim" }

func init() { sim.Register(&Engine{}, "C16") }

const (
	bridgeName = "gl"
	baseURL    = "https://gitlab.example.org"
	projectID  = "42"
	cursorKey  = "git-bug.bridge." + bridgeName + ".lastImportTime"
)

var faultKinds = []string{"transport", "500-once", "500-persistent", "404", "bad-json", "truncated", "cancel"}

func (e *Engine) Describe(prop string) sim.PropInfo {
	return sim.PropInfo{Level: "fault_enumeration",
		Rule: "one importing repository and a simulated GitLab tracker (REST endpoints behind the go-gitlab client's http.RoundTripper, GitLab pagination with a drawn page size of 1-4); a plan alternates tracker growth (issues, comments and their edits, title and description changes with their system notes, label and state events, deleted users moved to the Ghost User, hostile text) with import rounds, each a fresh process incarnation running the real bridge/core + bridge/gitlab importer; a round may have one fault armed at one request (by endpoint, issue and page): transport error, HTTP 500 once (masked by the client's retry), HTTP 500 persistently, 404, unparsable JSON, truncated body, cancellation, or the tracker changing under way; fault-injecting runs also hold an enumeration step: from a snapshot of the repository, for EVERY request of the round (one drawn fault kind each in the quick tier, every kind in the thorough tier) the faulty round then a clean round; runs with an even number are fault-free; non-trivial = at least two rounds that imported something (and, in fault runs, one fault that fired); distinct = distinct hash of the per-round request sets, event counts and resulting states",
		Kinds: []string{"panic", "cursor-advanced-on-error", "invalid-imported-op", "duplicate-operation", "reimport-added-data", "state-differs-from-tracker", "clean-import-error", "recovery-differs", "state-differs-from-control"},
		Real:  []string{"bridge/core (LoadBridge, ImportAll, cursor)", "bridge/gitlab importer, event model and API iteration", "github.com/xanzy/go-gitlab client incl. its retry logic (hashicorp/go-retryablehttp)", "cache.RepoCache, entities/bug, entities/identity, entity/dag", "repository.GoGitRepo on a real directory, git config for the cursor", "bridge/core/auth credentials (in-memory keyring)"},
		Stub:  []string{"GitLab itself: a tracker model served through http.RoundTripper (no sockets)", "client back-off and rate limiter (zero delay)", "wall clock, crypto/rand.Reader", "bridge configuration written directly (the interactive configure dialogue is not run)"},
		Assumptions: []string{
			"only the GitLab importer is driven (the property's anchors also list bridge/github/import.go: its GraphQL client has no seam and is not simulated)",
			"the three per-issue event streams are fetched by concurrent goroutines of the importer, so the arrival order of their requests is not scheduled; faults are keyed by request (endpoint, issue, page), which makes a case repeatable whatever the arrival order",
			"imported texts are compared with the tracker's modulo control characters and white space (sanitisation is allowed, loss of content is not)",
			"authors are compared only while no user was deleted (history already imported keeps its author)",
			"title changes carry titles GitLab itself would accept (single line, no control characters)",
			"importer and tracker clocks agree (the cursor is local time minus five seconds by design)",
		}}
}

func (e *Engine) Simplify(s sim.Step) []sim.Step {
	var out []sim.Step
	if s.Op == "grow" && s.N > 1 {
		c := s
		c.N = s.N / 2
		out = append(out, c)
	}
	if s.Op == "import" && s.F != "" {
		c := s
		c.F = ""
		out = append(out, c)
	}
	return out
}

func (e *Engine) Generate(prop, tier string, seed uint64, run int) *sim.Plan {
	rs := sim.Mix(seed, uint64(run)+0xC16)
	r := sim.NewRand(rs)
	faults := run%2 == 1
	p := &sim.Plan{Property: prop, Engine: "bridgesim", Tier: tier, Seed: seed, Run: run, RunSeed: rs, Cfg: map[string]interface{}{
		"page_size": r.Range(1, 4), "faults": faults, "id_overlap": r.Chance(0.25),
	}}
	if sim.NewRand(sim.Mix(rs, 0x6172)).Chance(0.5) {
		p.Cfg["tracker"] = "github"
	}
	n := r.Range(4, 9)
	if tier == "thorough" {
		n = r.Range(6, 16)
	}
	enumAt := -1
	if faults {
		enumAt = r.Range(1, n-1)
	}
	id := 0
	next := func() int { id++; return id }
	p.Steps = append(p.Steps, sim.Step{Id: next(), Op: "grow", N: r.Range(3, 8), A: r.Intn(1 << 30)})
	for i := 0; i < n; i++ {
		if i == enumAt {
			p.Steps = append(p.Steps, sim.Step{Id: next(), Op: "grow", N: r.Range(2, 6), A: r.Intn(1 << 30)})
			p.Steps = append(p.Steps, sim.Step{Id: next(), Op: "enum", A: r.Intn(1 << 30)})
			continue
		}
		switch r.Weighted([]int{5, 6, 1}) {
		case 0:
			p.Steps = append(p.Steps, sim.Step{Id: next(), Op: "grow", N: r.Range(1, 8), A: r.Intn(1 << 30)})
		case 1:
			st := sim.Step{Id: next(), Op: "import", D: int64(r.Range(0, 12))}
			if faults && r.Chance(0.55) {
				st.F = append(faultKinds, "midgrow", "midgrow")[r.Intn(len(faultKinds)+2)]
				st.K = []string{"issues", "notes", "labels", "states", "users"}[r.Intn(5)]
				st.B = r.Intn(64)
				st.N = r.Intn(8)
				st.A = r.Intn(1 << 30)
			}
			p.Steps = append(p.Steps, st)
		case 2:
			p.Steps = append(p.Steps, sim.Step{Id: next(), Op: "deluser", A: r.Intn(8)})
		}
	}
	return p
}

// ---- state extraction and comparison -------------------------------------------------------

type bugState struct {
	IID      string
	Title    string
	Status   string
	Labels   []string
	Comments []string
	Authors  []string
	NOps     int
}

func norm(s string) string {
	var b strings.Builder
	for _, r := range s {
		if unicode.IsControl(r) || unicode.IsSpace(r) {
			continue
		}
		b.WriteRune(r)
	}
	return b.String()
}

func (a bugState) diff(b bugState, authors bool) string {
	if norm(a.Title) != norm(b.Title) {
		return fmt.Sprintf("title %q vs %q", sim.Trunc(a.Title, 60), sim.Trunc(b.Title, 60))
	}
	if a.Status != b.Status {
		return fmt.Sprintf("status %s vs %s", a.Status, b.Status)
	}
	if strings.Join(a.Labels, "|") != strings.Join(b.Labels, "|") {
		return fmt.Sprintf("labels %v vs %v", a.Labels, b.Labels)
	}
	if len(a.Comments) != len(b.Comments) {
		return fmt.Sprintf("%d comments vs %d", len(a.Comments), len(b.Comments))
	}
	for i := range a.Comments {
		if norm(a.Comments[i]) != norm(b.Comments[i]) {
			return fmt.Sprintf("comment %d: %q vs %q", i, sim.Trunc(a.Comments[i], 60), sim.Trunc(b.Comments[i], 60))
		}
		if authors && a.Authors[i] != b.Authors[i] {
			return fmt.Sprintf("author of comment %d: %s vs %s", i, a.Authors[i], b.Authors[i])
		}
	}
	return ""
}

func diffStates(a, b map[string]bugState, an, bn string, authors bool) string {
	var keys []string
	for k := range a {
		keys = append(keys, k)
	}
	for k := range b {
		if _, ok := a[k]; !ok {
			keys = append(keys, k)
		}
	}
	sort.Strings(keys)
	for _, k := range keys {
		x, okx := a[k]
		y, oky := b[k]
		if !okx {
			return fmt.Sprintf("issue %s is missing in %s", k, an)
		}
		if !oky {
			return fmt.Sprintf("issue %s is missing in %s", k, bn)
		}
		if d := x.diff(y, authors); d != "" {
			return fmt.Sprintf("issue %s, %s vs %s: %s", k, an, bn, d)
		}
	}
	return ""
}

func (t *tracker) expected() map[string]bugState {
	out := map[string]bugState{}
	for _, is := range t.Issues {
		st := bugState{IID: fmt.Sprint(is.IID), Title: is.Title, Status: "open", Labels: is.currentLabels()}
		if is.state() == "closed" {
			st.Status = "closed"
		}
		st.Comments = append(st.Comments, is.Desc)
		st.Authors = append(st.Authors, t.Users[is.AuthorID].Username)
		for _, n := range is.Notes {
			if !n.System {
				st.Comments = append(st.Comments, n.Body)
				st.Authors = append(st.Authors, t.Users[n.AuthorID].Username)
			}
		}
		out[st.IID] = st
	}
	return out
}

type repoState struct {
	Bugs    map[string]bugState
	Invalid []string
	Dups    []string
	Idents  int
}

// readState reads every bug and identity of the replica through a side-effect-free handle.
func readState(rep *sim.Replica, m trackerModel) repoState {
	evKey, userKey := m.MetaKeys()
	rs := repoState{Bugs: map[string]bugState{}}
	obs := rep.Observer()
	logins := map[string]string{}
	seenUser := map[string]string{}
	for se := range identity.ReadAllLocal(obs) {
		if se.Err != nil {
			rs.Invalid = append(rs.Invalid, "identity: "+se.Err.Error())
			continue
		}
		i := se.Entity
		if err := i.Validate(); err != nil {
			rs.Invalid = append(rs.Invalid, fmt.Sprintf("identity %s: %v", i.Id().Human(), err))
		}
		rs.Idents++
		logins[string(i.Id())] = i.Login()
		if gid, ok := i.ImmutableMetadata()[userKey]; ok {
			if prev, dup := seenUser[gid]; dup {
				rs.Dups = append(rs.Dups, fmt.Sprintf("identities %s and %s both stand for tracker user %s", prev[:7], string(i.Id())[:7], gid))
			}
			seenUser[gid] = string(i.Id())
		}
	}
	for se := range bug.ReadAll(obs) {
		if se.Err != nil {
			rs.Invalid = append(rs.Invalid, "bug: "+se.Err.Error())
			continue
		}
		b := se.Entity
		if err := b.Validate(); err != nil {
			rs.Invalid = append(rs.Invalid, fmt.Sprintf("bug %s: %v", b.Id().Human(), err))
		}
		snap := b.Compile()
		st := bugState{Title: snap.Title, Status: snap.Status.String()}
		for _, l := range snap.Labels {
			st.Labels = append(st.Labels, string(l))
		}
		sort.Strings(st.Labels)
		for _, c := range snap.Comments {
			st.Comments = append(st.Comments, c.Message)
			st.Authors = append(st.Authors, logins[string(c.Author.Id())])
		}
		seen := map[string]bool{}
		for i, op := range b.Operations() {
			st.NOps++
			if err := op.Validate(); err != nil {
				rs.Invalid = append(rs.Invalid, fmt.Sprintf("bug %s op %d (%s): %v", b.Id().Human(), i, op.Type(), err))
			}
			gid, ok := op.GetMetadata(evKey)
			if !ok {
				continue
			}
			if i == 0 {
				st.IID = gid
				continue
			}
			k := fmt.Sprintf("%s event %s", opNames[int(op.Type())], gid)
			if seen[k] {
				rs.Dups = append(rs.Dups, fmt.Sprintf("issue %s: tracker %s was imported twice", st.IID, k))
			}
			seen[k] = true
		}
		if st.IID == "" {
			st.IID = "local:" + string(b.Id())
		}
		if _, dup := rs.Bugs[st.IID]; dup {
			rs.Dups = append(rs.Dups, fmt.Sprintf("issue %s was imported as two bugs", st.IID))
		}
		rs.Bugs[st.IID] = st
	}
	sort.Strings(rs.Dups)
	sort.Strings(rs.Invalid)
	return rs
}

func (rs repoState) digest() string {
	var keys []string
	for k := range rs.Bugs {
		keys = append(keys, k)
	}
	sort.Strings(keys)
	var sb strings.Builder
	for _, k := range keys {
		b := rs.Bugs[k]
		fmt.Fprintf(&sb, "%s|%s|%s|%v|%d|%d\n", k, norm(b.Title), b.Status, b.Labels, len(b.Comments), b.NOps)
	}
	fmt.Fprintf(&sb, "idents=%d", rs.Idents)
	return model.Sha256Hex([]byte(sb.String()))[:12]
}

// ---- execution --------------------------------------------------------------------------------

type roundResult struct {
	Errs     []string
	Events   map[string]int
	Imported int
	Cursor0  string
	Cursor1  string
	Fired    bool
	Requests []string
	Panics   []verifrt.PanicRecord
	Refs0    string
	Refs1    string
	State    repoState
}

type exec struct {
	p       *sim.Plan
	w       *sim.World
	t       trackerModel
	srv     endpoint
	github  bool
	res     *sim.RunResult
	viol    map[string]bool
	step    int
	pin     map[string]interface{}
	log     []string
	deleted bool
	// tracker version at the end of the last round that completed cleanly, -1 = none
	cleanVersion int
	good         int
	// a fault fired since the last round that completed cleanly
	dirty bool
}

func (x *exec) add(kind, format string, a ...interface{}) {
	if x.viol[kind] {
		return
	}
	x.viol[kind] = true
	if c := x.t.Collision(); c != "" && kind != "panic" {
		format = c + ": " + format
	}
	x.res.Violations = append(x.res.Violations, sim.Violation{Property: x.p.Property, Kind: kind, Detail: fmt.Sprintf(format, a...), Step: x.step, Pin: x.pin})
}

func configure(rep *sim.Replica, github bool) error {
	cfg := rep.Cache.LocalConfig()
	conf := map[string]string{"target": "gitlab", "project-id": projectID, "base-url": baseURL, "default-login": "user1"}
	tok := auth.NewToken("gitlab", "glpat-simulated")
	tok.SetMetadata(auth.MetaKeyLogin, "user1")
	tok.SetMetadata(auth.MetaKeyBaseURL, baseURL)
	if github {
		conf = map[string]string{"target": "github", "owner": "owner", "project": "project", "default-login": "octo1"}
		tok = auth.NewToken("github", "ghp-simulated")
		tok.SetMetadata(auth.MetaKeyLogin, "octo1")
	}
	for k, v := range conf {
		if err := cfg.StoreString("git-bug.bridge."+bridgeName+"."+k, v); err != nil {
			return err
		}
	}
	return auth.Store(rep.Cache, tok)
}

func refsDigest(rep *sim.Replica) string {
	t, _ := sim.RefTable(rep.Raw, "refs/")
	var parts []string
	for k, v := range t {
		parts = append(parts, k+"="+v)
	}
	sort.Strings(parts)
	return model.Sha256Hex([]byte(strings.Join(parts, "\n")))[:16]
}

// round runs one import as a process of its own: open, import, close.
func (x *exec) round(rep *sim.Replica, f *fault, randStep uint64) (rr roundResult, herr error) {
	rr.Events = map[string]int{}
	sim.SetRandStep(randStep)
	x.w.Act(rep)
	if err := rep.Open(); err != nil {
		return rr, fmt.Errorf("open: %w", err)
	}
	x.w.Act(rep)
	defer func() {
		if err := rep.CloseClean(); err != nil && herr == nil {
			herr = fmt.Errorf("close: %w", err)
		}
	}()
	rr.Cursor0, _ = rep.Cache.LocalConfig().ReadString(cursorKey)
	rr.Refs0 = refsDigest(rep)
	ctx, cancel := context.WithCancel(context.Background())
	defer cancel()
	x.srv.resetRound(f)
	_, fired0 := x.srv.round()
	verifrt.TakePanics()
	b, err := core.LoadBridge(rep.Cache, bridgeName)
	if err != nil {
		return rr, fmt.Errorf("LoadBridge: %w", err)
	}
	events, err := b.ImportAll(ctx)
	if err != nil {
		rr.Errs = append(rr.Errs, "ImportAll: "+err.Error())
	} else {
		for ev := range events {
			switch ev.Event {
			case core.ImportEventError:
				rr.Errs = append(rr.Errs, fmt.Sprint(ev.Err))
				rr.Events["error"]++
			case core.ImportEventNothing:
				rr.Events["nothing"]++
			case core.ImportEventWarning:
				rr.Events["warning"]++
			default:
				name, ok := map[core.ImportEvent]string{core.ImportEventBug: "bug", core.ImportEventComment: "comment", core.ImportEventCommentEdition: "comment-edition",
					core.ImportEventStatusChange: "status-change", core.ImportEventTitleEdition: "title-edition", core.ImportEventLabelChange: "label-change",
					core.ImportEventIdentity: "identity", core.ImportEventRateLimiting: "rate-limiting"}[ev.Event]
				if !ok {
					name = fmt.Sprintf("ev%d", int(ev.Event))
				}
				rr.Events[name]++
				rr.Imported++
			}
		}
	}
	rr.Panics = verifrt.TakePanics()
	// tracker and importer share one clock: whatever time the round took on the importer's side
	// (simulated retry and rate-limit waits) has passed on the tracker too
	if clk := x.t.Clk(); *clk < rep.Wall {
		*clk = rep.Wall
	}
	var fired1 int
	rr.Requests, fired1 = x.srv.round()
	sort.Strings(rr.Requests)
	rr.Fired = fired1 > fired0
	rr.Cursor1, _ = rep.Cache.LocalConfig().ReadString(cursorKey)
	rr.Refs1 = refsDigest(rep)
	rr.State = readState(rep, x.t)
	return rr, nil
}

// judge applies the per-round rules. clean = no fault was armed for the round.
func (x *exec) judge(rr roundResult, armed *fault, label string) {
	for _, p := range rr.Panics {
		x.add("panic", "%s: the importer panicked in %s: %s", label, p.Site, sim.Trunc(p.Value, 200))
	}
	if len(rr.Errs) > 0 && rr.Cursor1 != rr.Cursor0 {
		x.add("cursor-advanced-on-error", "%s: the round reported %d error(s) (first: %s) and the cursor moved from %q to %q", label, len(rr.Errs), sim.Trunc(rr.Errs[0], 160), rr.Cursor0, rr.Cursor1)
	}
	if len(rr.State.Invalid) > 0 {
		x.add("invalid-imported-op", "%s: %s", label, sim.Trunc(rr.State.Invalid[0], 300))
	}
	if len(rr.State.Dups) > 0 {
		x.add("duplicate-operation", "%s: %s", label, rr.State.Dups[0])
	}
	for key, actions := range x.t.ActionsOf() {
		if b, ok := rr.State.Bugs[key]; ok && b.NOps > actions {
			x.add("duplicate-operation", "%s: issue %s saw %d tracker-side actions (creation included) but its bug holds %d operations", label, key, actions, b.NOps)
		}
	}
	if rr.State.Idents > x.t.NUsers() {
		x.add("duplicate-operation", "%s: %d identities for %d tracker users", label, rr.State.Idents, x.t.NUsers())
	}
	clean := armed == nil || (!rr.Fired && armed.Kind != "midgrow")
	if rr.Fired && armed.Kind != "midgrow" {
		x.dirty = true
	}
	if armed != nil && armed.Kind == "midgrow" {
		return
	}
	if clean && len(rr.Panics) == 0 {
		if len(rr.Errs) > 0 {
			x.add("clean-import-error", "%s: no request failed, yet the import reported: %s", label, sim.Trunc(rr.Errs[0], 240))
		} else {
			if d := diffStates(rr.State.Bugs, x.t.Expected(), "repository", "tracker", !x.deleted); d != "" {
				if x.dirty {
					x.add("recovery-differs", "%s: the clean round after a failed one does not end in the tracker's state: %s", label, d)
				} else {
					x.add("state-differs-from-tracker", "%s: after a clean round: %s", label, d)
				}
			}
			x.dirty = false
			if x.cleanVersion == x.t.Ver() && (rr.Refs0 != rr.Refs1 || rr.Imported > 0) {
				x.add("reimport-added-data", "%s: the tracker did not change since the last clean import, yet the round reported %d imported item(s) and refs changed=%v", label, rr.Imported, rr.Refs0 != rr.Refs1)
			}
		}
	}
}

func (x *exec) note(rr roundResult, label string) {
	var ev []string
	for k, v := range rr.Events {
		ev = append(ev, fmt.Sprintf("%s=%d", k, v))
	}
	sort.Strings(ev)
	x.log = append(x.log, fmt.Sprintf("%s req=%s ev=%s errs=%d cursor=%v state=%s", label, model.Sha256Hex([]byte(strings.Join(rr.Requests, ",")))[:10], strings.Join(ev, ","), len(rr.Errs), rr.Cursor0 != rr.Cursor1, rr.State.digest()))
	if rr.Imported > 0 {
		x.good++
	}
	for k := range rr.Events {
		x.res.Probes["event_"+k]++
	}
	if len(rr.Errs) > 0 {
		x.res.Probes["round_with_error"]++
	}
	if rr.Cursor0 != rr.Cursor1 {
		x.res.Probes["cursor_advanced"]++
	}
}

func (x *exec) faultKey(st *sim.Step) string { return x.srv.faultKey(st) }

func copyTree(src, dst string) error {
	return filepath.Walk(src, func(p string, info os.FileInfo, err error) error {
		if err != nil {
			return err
		}
		rel, _ := filepath.Rel(src, p)
		out := filepath.Join(dst, rel)
		if info.IsDir() {
			return os.MkdirAll(out, 0o755)
		}
		if !info.Mode().IsRegular() {
			return nil
		}
		in, err := os.Open(p)
		if err != nil {
			return err
		}
		defer in.Close()
		o, err := os.OpenFile(out, os.O_CREATE|os.O_WRONLY|os.O_TRUNC, info.Mode().Perm())
		if err != nil {
			return err
		}
		if _, err := io.Copy(o, in); err != nil {
			o.Close()
			return err
		}
		return o.Close()
	})
}

func (x *exec) setWall(rep *sim.Replica, d int64) {
	clk := x.t.Clk()
	if rep.Wall < *clk {
		rep.Wall = *clk
	}
	rep.Wall += d
	if *clk < rep.Wall {
		*clk = rep.Wall
	}
}

func (e *Engine) Execute(p *sim.Plan, keepLog bool) (res *sim.RunResult) {
	res = &sim.RunResult{Faults: map[string]int{}, Probes: map[string]int{}}
	w := sim.NewWorld(p.RunSeed, keepLog)
	defer w.Close()
	x := &exec{p: p, w: w, res: res, viol: map[string]bool{}, cleanVersion: -1}
	defer func() {
		gitlabhook.SetTransport(nil)
		if r := recover(); r != nil {
			res.HarnessErr = fmt.Sprintf("harness panic at step %d: %v", x.step, r)
		}
	}()
	r := sim.NewRand(sim.Mix(p.RunSeed, 0xB16))
	x.github = p.CfgStr("tracker", "gitlab") == "github"
	if x.github {
		gt := newGhTracker()
		x.t = gt
		gs := &ghServer{t: gt, issuesPS: p.CfgInt("page_size", 2), timelinePS: 1 + p.CfgInt("page_size", 2), Fired: map[string]int{}, seen: map[string]int{}}
		x.srv = gs
		// oauth2.NewClient(context.TODO(), …) in bridge/github falls back to the default transport
		prevTransport := http.DefaultTransport
		http.DefaultTransport = gs
		defer func() { http.DefaultTransport = prevTransport }()
		// retry and rate-limit waits (8, 16, 24 s, up to 30 s) elapse on the simulated clock
		verifrt.SetSleep(func(d time.Duration) {
			if cur := x.w.Cur(); cur != nil {
				cur.Wall += int64(d / time.Second)
			}
			x.res.Probes["simulated_wait"]++
		})
		defer verifrt.SetSleep(nil)
	} else {
		gl := newTracker(r, p.CfgBool("id_overlap"))
		x.t = gl
		gs := &server{t: gl, pageSize: p.CfgInt("page_size", 2), Fired: map[string]int{}, seen: map[string]int{}}
		x.srv = gs
		gitlabhook.SetTransport(gs)
	}

	rep := w.AddReplica("importer", "cache", *x.t.Clk()+10)
	w.Act(rep)
	sim.SetRandStep(1)
	if err := rep.Init(); err != nil {
		res.HarnessErr = err.Error()
		return res
	}
	if err := configure(rep, x.github); err != nil {
		res.HarnessErr = "configure: " + err.Error()
		return res
	}
	if err := rep.CloseClean(); err != nil {
		res.HarnessErr = "close: " + err.Error()
		return res
	}
	faultRun := p.CfgBool("faults")
	firedAny := false

	for i := range p.Steps {
		st := &p.Steps[i]
		x.step = i
		res.Steps++
		switch st.Op {
		case "grow":
			x.t.Grow(sim.NewRand(sim.Mix(p.RunSeed, uint64(st.A))), st.N)
			x.log = append(x.log, fmt.Sprintf("grow %d -> v%d", st.N, x.t.Ver()))
		case "deluser":
			if x.t.DeleteUser(st.A) {
				x.deleted = true
				res.Probes["user_deleted"]++
			}
		case "import":
			x.setWall(rep, st.D)
			var f *fault
			if st.F != "" {
				f = &fault{Key: x.faultKey(st), Kind: st.F}
				if st.F == "midgrow" {
					gr := sim.NewRand(sim.Mix(p.RunSeed, uint64(st.A)))
					f.Grow = func() { x.t.Grow(gr, 1+st.N%3) }
				}
			}
			v0 := x.t.Ver()
			rr, err := x.round(rep, f, uint64(st.Id)*1000)
			if err != nil {
				res.HarnessErr = err.Error()
				return res
			}
			res.Cases++
			label := fmt.Sprintf("round at step %d", i)
			if f != nil {
				label += fmt.Sprintf(" (%s armed at %s, fired=%v)", f.Kind, f.Key, rr.Fired)
				if rr.Fired {
					res.Faults[f.Kind]++
					firedAny = true
				}
			}
			x.judge(rr, f, label)
			x.note(rr, "import")
			if (f == nil || !rr.Fired) && len(rr.Errs) == 0 && len(rr.Panics) == 0 && x.t.Ver() == v0 {
				x.cleanVersion = v0
			}
			if clk := x.t.Clk(); *clk < rep.Wall {
				*clk = rep.Wall
			}
		case "enum":
			if herr := x.enumerate(rep, st, &firedAny); herr != nil {
				res.HarnessErr = herr.Error()
				return res
			}
		}
		if len(res.Violations) > 0 {
			break
		}
		res.StepsOK++
	}

	// closing phase: a clean round (two when the last one was disturbed), then the comparisons
	if len(res.Violations) == 0 {
		x.step = len(p.Steps)
		x.setWall(rep, 7)
		rr, err := x.round(rep, nil, 900_000)
		if err != nil {
			res.HarnessErr = err.Error()
			return res
		}
		res.Cases++
		x.judge(rr, nil, "closing round")
		x.note(rr, "closing")
		if len(rr.Errs) == 0 && len(rr.Panics) == 0 {
			x.cleanVersion = x.t.Ver()
		}
		final := rr.State
		if len(res.Violations) == 0 {
			// a further round over the unchanged tracker adds nothing
			x.setWall(rep, 3)
			rr2, err := x.round(rep, nil, 900_001)
			if err != nil {
				res.HarnessErr = err.Error()
				return res
			}
			res.Cases++
			x.judge(rr2, nil, "repeated closing round")
			x.note(rr2, "repeat")
		}
		if len(res.Violations) == 0 {
			ctl := w.AddReplica("control", "cache", rep.Wall)
			w.Act(ctl)
			sim.SetRandStep(900_002)
			if err := ctl.Init(); err != nil {
				res.HarnessErr = err.Error()
				return res
			}
			if err := configure(ctl, x.github); err != nil {
				res.HarnessErr = err.Error()
				return res
			}
			if err := ctl.CloseClean(); err != nil {
				res.HarnessErr = err.Error()
				return res
			}
			rc, err := x.round(ctl, nil, 900_003)
			if err != nil {
				res.HarnessErr = err.Error()
				return res
			}
			if len(rc.Errs) > 0 || len(rc.Panics) > 0 {
				x.add("clean-import-error", "a one-shot import of the final tracker into a fresh repository failed: %v", rc.Errs)
			} else if d := diffStates(final.Bugs, rc.State.Bugs, "incremental", "one-shot control", !x.deleted); d != "" {
				kind := "state-differs-from-control"
				if firedAny {
					kind = "recovery-differs"
				}
				x.add(kind, "%s", d)
			}
			x.note(rc, "control")
		}
	}
	res.SimSeconds = *x.t.Clk() - 1_600_000_000
	res.LogHash = model.Sha256Hex([]byte(strings.Join(x.log, "\n")))[:16]
	if keepLog {
		res.Trace = x.log
	}
	if x.good >= 2 && (!faultRun || firedAny) {
		res.NTKey = "rounds"
		if faultRun {
			res.NTKey = "rounds+fault"
		}
	}
	return res
}

// enumerate arms every request of the next round in turn, from a snapshot of the repository.
func (x *exec) enumerate(rep *sim.Replica, st *sim.Step, firedAny *bool) error {
	x.setWall(rep, 6)
	snap := rep.Dir + ".snap"
	if err := copyTree(rep.Dir, snap); err != nil {
		return err
	}
	defer os.RemoveAll(snap)
	restore := func() error {
		if err := os.RemoveAll(rep.Dir); err != nil {
			return err
		}
		return copyTree(snap, rep.Dir)
	}
	ref, err := x.round(rep, nil, uint64(st.Id)*1000)
	if err != nil {
		return err
	}
	x.res.Cases++
	x.judge(ref, nil, fmt.Sprintf("reference round of the enumeration at step %d", x.step))
	x.note(ref, "enum-ref")
	if len(x.res.Violations) > 0 {
		return nil
	}
	cleanV := x.cleanVersion
	kr := sim.NewRand(sim.Mix(x.p.RunSeed, uint64(st.A)))
	pinKey, pinKind := x.p.CfgStr("enum_key", ""), x.p.CfgStr("enum_kind", "")
	n := 0
	for _, key := range ref.Requests {
		kinds := []string{faultKinds[kr.Intn(len(faultKinds))]}
		if x.p.Tier == "thorough" {
			kinds = faultKinds
		}
		for _, kind := range kinds {
			if pinKey != "" && (pinKey != key || pinKind != kind) {
				continue
			}
			n++
			if err := restore(); err != nil {
				return err
			}
			x.cleanVersion = cleanV
			x.dirty = false
			x.pin = map[string]interface{}{"enum_key": key, "enum_kind": kind}
			f := &fault{Key: key, Kind: kind}
			bad, err := x.round(rep, f, uint64(st.Id)*1000+uint64(2*n))
			if err != nil {
				return err
			}
			x.res.Cases++
			if bad.Fired {
				x.res.Faults[kind]++
				*firedAny = true
			}
			label := fmt.Sprintf("enumeration at step %d, %s at %s", x.step, kind, key)
			x.judge(bad, f, label+", faulty round")
			x.log = append(x.log, fmt.Sprintf("enum %s %s errs=%v cursor=%v", key, kind, len(bad.Errs) > 0, bad.Cursor0 != bad.Cursor1))
			if len(x.res.Violations) > 0 {
				return nil
			}
			rec, err := x.round(rep, nil, uint64(st.Id)*1000+uint64(2*n+1))
			if err != nil {
				return err
			}
			x.res.Cases++
			x.judge(rec, nil, label+", following clean round")
			if len(x.res.Violations) == 0 && len(rec.Errs) == 0 {
				if d := diffStates(rec.State.Bugs, ref.State.Bugs, "recovered", "never-failed", !x.deleted); d != "" {
					x.add("recovery-differs", "%s: the clean round after the failure does not end where the round that never failed ends: %s", label, d)
				}
			}
			x.log = append(x.log, "  recovered "+rec.State.digest())
			if len(x.res.Violations) > 0 {
				return nil
			}
			x.pin = nil
		}
	}
	x.pin = nil
	x.res.Probes["enumerated_requests"] += len(ref.Requests)
	if len(ref.Errs) == 0 {
		x.cleanVersion = x.t.Ver()
	}
	return nil
}

var opNames = map[int]string{int(bug.CreateOp): "create", int(bug.SetTitleOp): "set-title", int(bug.AddCommentOp): "comment", int(bug.SetStatusOp): "status", int(bug.LabelChangeOp): "label", int(bug.EditCommentOp): "comment-edit", int(bug.NoOpOp): "noop", int(bug.SetMetadataOp): "set-metadata"}

// collision reports an id that one issue holds in two of GitLab's id sequences (issue iid,
// notes, label events, state events), which the importer stores under one metadata key.
func (t *tracker) collision() string {
	for _, is := range t.Issues {
		seen := map[int]string{is.IID: "the issue's iid"}
		chk := func(id int, what string) string {
			if prev, ok := seen[id]; ok && prev != what {
				return fmt.Sprintf("issue %d: id %d is %s and %s", is.IID, id, prev, what)
			}
			seen[id] = what
			return ""
		}
		for _, n := range is.Notes {
			if c := chk(n.ID, "a note"); c != "" {
				return c
			}
		}
		for _, e := range is.Labels {
			if c := chk(e.ID, "a label event"); c != "" {
				return c
			}
		}
		for _, e := range is.States {
			if c := chk(e.ID, "a state event"); c != "" {
				return c
			}
		}
	}
	return ""
}
