package model

import (
	"encoding/json"
	"fmt"

	"github.com/MichaelMure/git-bug/repository"
)

// The adversary's own encoder of the documented on-disk format (doc/model.md): it never
// uses git-bug's pack writer, only the raw RepoData store calls.

type Writer interface {
	StoreData(data []byte) (repository.Hash, error)
	StoreTree(mapping []repository.TreeEntry) (repository.Hash, error)
	StoreCommit(treeHash repository.Hash, parents ...repository.Hash) (repository.Hash, error)
	UpdateRef(ref string, hash repository.Hash) error
}

// Entry is one entry of a pack's tree before it is stored.
type Entry struct {
	Name string
	Kind string // "empty" (the empty blob), "blob" (Data), "tree" (Sub)
	Data []byte
	Sub  []Entry
}

// PackSpec describes one commit of a bug history.
type PackSpec struct {
	Author  string            // identity id
	Ops     []json.RawMessage // raw operations
	Edit    uint64
	Create  uint64 // 0 = no create-clock entry
	Version int    // format version entry (4 for bugs)
	Files   []string
}

// OpJSON renders one operation the way the documentation describes it.
func OpJSON(fields map[string]interface{}) json.RawMessage {
	b, err := json.Marshal(fields)
	if err != nil {
		panic(err)
	}
	return b
}

func Nonce(seed uint64, n int) []byte {
	out := make([]byte, n)
	x := seed*0x9e3779b97f4a7c15 + 1
	for i := range out {
		x ^= x << 13
		x ^= x >> 7
		x ^= x << 17
		out[i] = byte(x)
	}
	return out
}

// OpsBlob renders the ops blob of a pack.
func OpsBlob(author string, ops []json.RawMessage) []byte {
	if ops == nil {
		ops = []json.RawMessage{}
	}
	b, err := json.Marshal(struct {
		Author struct {
			Id string `json:"id"`
		} `json:"author"`
		Ops []json.RawMessage `json:"ops"`
	}{Author: struct {
		Id string `json:"id"`
	}{author}, Ops: ops})
	if err != nil {
		panic(err)
	}
	return b
}

// Entries lists the documented tree entries of a pack.
func (p PackSpec) Entries() []Entry {
	es := []Entry{
		{Name: fmt.Sprintf("version-%d", p.Version), Kind: "empty"},
		{Name: "ops", Kind: "blob", Data: OpsBlob(p.Author, p.Ops)},
		{Name: fmt.Sprintf("edit-clock-%d", p.Edit), Kind: "empty"},
	}
	if p.Create > 0 {
		es = append(es, Entry{Name: fmt.Sprintf("create-clock-%d", p.Create), Kind: "empty"})
	}
	return es
}

// StoreEntries writes a tree from entries and returns its hash.
func StoreEntries(w Writer, es []Entry) (repository.Hash, error) {
	var tes []repository.TreeEntry
	for _, e := range es {
		switch e.Kind {
		case "empty":
			h, err := w.StoreData([]byte{})
			if err != nil {
				return "", err
			}
			tes = append(tes, repository.TreeEntry{ObjectType: repository.Blob, Hash: h, Name: e.Name})
		case "blob":
			h, err := w.StoreData(e.Data)
			if err != nil {
				return "", err
			}
			tes = append(tes, repository.TreeEntry{ObjectType: repository.Blob, Hash: h, Name: e.Name})
		case "tree":
			h, err := StoreEntries(w, e.Sub)
			if err != nil {
				return "", err
			}
			tes = append(tes, repository.TreeEntry{ObjectType: repository.Tree, Hash: h, Name: e.Name})
		}
	}
	return w.StoreTree(tes)
}

// StoreCommitOf writes a commit for the given entries.
func StoreCommitOf(w Writer, es []Entry, parents ...repository.Hash) (repository.Hash, error) {
	th, err := StoreEntries(w, es)
	if err != nil {
		return "", err
	}
	return w.StoreCommit(th, parents...)
}

// IdentityVersionJSON renders one identity version.
func IdentityVersionJSON(v map[string]interface{}) []byte {
	b, err := json.Marshal(v)
	if err != nil {
		panic(err)
	}
	return b
}
