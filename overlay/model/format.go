// Package model holds the small executable reference models used as oracles:
// a decoder of the documented on-disk format (doc/model.md), the reference orderer,
// the bug interpreter and the query evaluator. None of it calls git-bug's entity code;
// it only uses the repository.RepoData read methods.
package model

import (
	"crypto/sha256"
	"encoding/json"
	"fmt"
	"sort"
	"strconv"
	"strings"

	"github.com/MichaelMure/git-bug/repository"
)

// Reader is the subset of RepoData the decoder needs.
type Reader interface {
	ReadData(hash repository.Hash) ([]byte, error)
	ReadTree(hash repository.Hash) ([]repository.TreeEntry, error)
	ReadCommit(hash repository.Hash) (repository.Commit, error)
	ResolveRef(ref string) (repository.Hash, error)
	ListRefs(refPrefix string) ([]string, error)
}

type RawOp struct {
	Id     string
	Raw    json.RawMessage
	Type   int
	Author string // author id of the pack
	F      OpFields
}

// OpFields is the union of the documented JSON fields of bug operations.
type OpFields struct {
	Type        int               `json:"type"`
	Timestamp   int64             `json:"timestamp"`
	Nonce       []byte            `json:"nonce"`
	Metadata    map[string]string `json:"metadata"`
	Title       string            `json:"title"`
	Was         string            `json:"was"`
	Message     string            `json:"message"`
	Files       []string          `json:"files"`
	Target      string            `json:"target"`
	Added       []string          `json:"added"`
	Removed     []string          `json:"removed"`
	Status      int               `json:"status"`
	NewMetadata map[string]string `json:"new_metadata"`
}

const (
	OpCreate      = 1
	OpSetTitle    = 2
	OpAddComment  = 3
	OpSetStatus   = 4
	OpLabelChange = 5
	OpEditComment = 6
	OpNoOp        = 7
	OpSetMetadata = 8
)

type Commit struct {
	Hash       string
	Parents    []string
	Entries    []repository.TreeEntry
	Version    int
	EditTime   uint64
	CreateTime uint64
	HasOps     bool
	OpsBlob    []byte
	PackId     string
	Author     string
	Ops        []RawOp
	Signed     bool
	ExtraFiles []string // blob hashes referenced from the extra tree
}

type Entity struct {
	Ref     string
	Head    string
	Commits map[string]*Commit
	Topo    []*Commit // ancestors before descendants, deterministic
	Root    *Commit
}

func Sha256Hex(b []byte) string {
	s := sha256.Sum256(b)
	return fmt.Sprintf("%x", s)
}

// ReadEntity decodes the history under ref. It fails on anything it cannot decode;
// structural judgement (CheckStructure) is separate.
func ReadEntity(r Reader, ref string) (*Entity, error) {
	head, err := r.ResolveRef(ref)
	if err != nil {
		return nil, err
	}
	e := &Entity{Ref: ref, Head: string(head), Commits: map[string]*Commit{}}
	stack := []string{string(head)}
	for len(stack) > 0 {
		h := stack[len(stack)-1]
		stack = stack[:len(stack)-1]
		if _, ok := e.Commits[h]; ok {
			continue
		}
		c, err := readCommit(r, h)
		if err != nil {
			return nil, fmt.Errorf("commit %s: %w", h, err)
		}
		e.Commits[h] = c
		stack = append(stack, c.Parents...)
	}
	// deterministic topological order (Kahn, ties by hash)
	indeg := map[string]int{}
	children := map[string][]string{}
	for h, c := range e.Commits {
		indeg[h] += 0
		for _, p := range c.Parents {
			indeg[h]++
			children[p] = append(children[p], h)
		}
	}
	var ready []string
	for h, d := range indeg {
		if d == 0 {
			ready = append(ready, h)
		}
	}
	for len(ready) > 0 {
		sort.Strings(ready)
		h := ready[0]
		ready = ready[1:]
		e.Topo = append(e.Topo, e.Commits[h])
		for _, ch := range children[h] {
			indeg[ch]--
			if indeg[ch] == 0 {
				ready = append(ready, ch)
			}
		}
	}
	if len(e.Topo) != len(e.Commits) {
		return nil, fmt.Errorf("commit graph has a cycle")
	}
	for _, c := range e.Topo {
		if len(c.Parents) == 0 {
			if e.Root == nil {
				e.Root = c
			}
		}
	}
	return e, nil
}

func readCommit(r Reader, h string) (*Commit, error) {
	rc, err := r.ReadCommit(repository.Hash(h))
	if err != nil {
		return nil, err
	}
	c := &Commit{Hash: h, Signed: rc.Signature != nil}
	for _, p := range rc.Parents {
		c.Parents = append(c.Parents, string(p))
	}
	entries, err := r.ReadTree(rc.TreeHash)
	if err != nil {
		return nil, err
	}
	c.Entries = entries
	for _, en := range entries {
		switch {
		case en.Name == "ops":
			data, err := r.ReadData(en.Hash)
			if err != nil {
				return nil, err
			}
			c.HasOps = true
			c.OpsBlob = data
			c.PackId = Sha256Hex(data)
			var aux struct {
				Author struct {
					Id string `json:"id"`
				} `json:"author"`
				Ops []json.RawMessage `json:"ops"`
			}
			if err := json.Unmarshal(data, &aux); err != nil {
				return nil, fmt.Errorf("ops blob: %w", err)
			}
			c.Author = aux.Author.Id
			for _, raw := range aux.Ops {
				op := RawOp{Id: Sha256Hex(raw), Raw: raw, Author: aux.Author.Id}
				if err := json.Unmarshal(raw, &op.F); err != nil {
					return nil, fmt.Errorf("op: %w", err)
				}
				op.Type = op.F.Type
				c.Ops = append(c.Ops, op)
			}
		case strings.HasPrefix(en.Name, "version-"):
			v, err := strconv.ParseUint(strings.TrimPrefix(en.Name, "version-"), 10, 64)
			if err != nil {
				return nil, err
			}
			c.Version = int(v)
		case strings.HasPrefix(en.Name, "edit-clock-"):
			v, err := strconv.ParseUint(strings.TrimPrefix(en.Name, "edit-clock-"), 10, 64)
			if err != nil {
				return nil, err
			}
			c.EditTime = v
		case strings.HasPrefix(en.Name, "create-clock-"):
			v, err := strconv.ParseUint(strings.TrimPrefix(en.Name, "create-clock-"), 10, 64)
			if err != nil {
				return nil, err
			}
			c.CreateTime = v
		case en.Name == "extra":
			sub, err := r.ReadTree(en.Hash)
			if err != nil {
				return nil, err
			}
			for _, s := range sub {
				c.ExtraFiles = append(c.ExtraFiles, string(s.Hash))
			}
		}
	}
	return c, nil
}

// CheckStructure applies the documented refusal conditions: exactly one root which
// carries a creation time, clocks strictly increasing along every edge, merge
// commits carry no operations, every commit has an edit time.
func (e *Entity) CheckStructure() error {
	roots := 0
	for _, c := range e.Topo {
		if len(c.Parents) == 0 {
			roots++
			if c.CreateTime == 0 {
				return fmt.Errorf("root without creation time")
			}
		}
		if c.EditTime == 0 {
			return fmt.Errorf("commit without edit time")
		}
		if len(c.Parents) > 1 && len(c.Ops) > 0 {
			return fmt.Errorf("merge commit with operations")
		}
		for _, p := range c.Parents {
			if e.Commits[p].EditTime >= c.EditTime {
				return fmt.Errorf("clock not increasing along edge %s->%s", p[:7], c.Hash[:7])
			}
		}
	}
	if roots != 1 {
		return fmt.Errorf("%d roots", roots)
	}
	return nil
}

// OrderedPacks is the reference order: (edit time, pack id).
func (e *Entity) OrderedPacks() []*Commit {
	out := make([]*Commit, 0, len(e.Topo))
	out = append(out, e.Topo...)
	sort.SliceStable(out, func(i, j int) bool {
		if out[i].EditTime != out[j].EditTime {
			return out[i].EditTime < out[j].EditTime
		}
		return out[i].PackId < out[j].PackId
	})
	return out
}

func (e *Entity) OrderedOps() []RawOp {
	var ops []RawOp
	for _, c := range e.OrderedPacks() {
		ops = append(ops, c.Ops...)
	}
	return ops
}

func (e *Entity) OrderedOpIds() []string {
	ops := e.OrderedOps()
	ids := make([]string, len(ops))
	for i, o := range ops {
		ids[i] = o.Id
	}
	return ids
}

// AllOpIds as a set.
func (e *Entity) OpIdSet() map[string]bool {
	s := map[string]bool{}
	for _, c := range e.Topo {
		for _, o := range c.Ops {
			s[o.Id] = true
		}
	}
	return s
}

// Id is the id of the first operation of the root pack.
func (e *Entity) Id() string {
	if e.Root == nil || len(e.Root.Ops) == 0 {
		return ""
	}
	return e.Root.Ops[0].Id
}

// MaxEdit returns the largest edit time of any commit.
func (e *Entity) MaxEdit() uint64 {
	var m uint64
	for _, c := range e.Topo {
		if c.EditTime > m {
			m = c.EditTime
		}
	}
	return m
}

func (e *Entity) MaxCreate() uint64 {
	var m uint64
	for _, c := range e.Topo {
		if c.CreateTime > m {
			m = c.CreateTime
		}
	}
	return m
}

// CausalityViolation checks an observed operation order against the DAG: every
// operation of an ancestor commit precedes those of a descendant, and a pack's
// operations keep their stored order. Returns "" when fine.
func (e *Entity) CausalityViolation(order []string) string {
	pos := map[string]int{}
	for i, id := range order {
		pos[id] = i
	}
	// ancestors sets via topo
	anc := map[string]map[string]bool{}
	for _, c := range e.Topo {
		a := map[string]bool{}
		for _, p := range c.Parents {
			a[p] = true
			for x := range anc[p] {
				a[x] = true
			}
		}
		anc[c.Hash] = a
	}
	for _, c := range e.Topo {
		for i := 1; i < len(c.Ops); i++ {
			if pos[c.Ops[i-1].Id] >= pos[c.Ops[i].Id] {
				return fmt.Sprintf("pack order broken in commit %s", c.Hash[:7])
			}
		}
		if len(c.Ops) == 0 {
			continue
		}
		first := pos[c.Ops[0].Id]
		for a := range anc[c.Hash] {
			for _, o := range e.Commits[a].Ops {
				if pos[o.Id] >= first {
					return fmt.Sprintf("op %s of ancestor %s placed after op of descendant %s", o.Id[:7], a[:7], c.Hash[:7])
				}
			}
		}
	}
	return ""
}

// IdentityVersion is the documented JSON of one identity version.
type IdentityVersion struct {
	CommitHash string
	Id         string
	Raw        []byte
	Version    int               `json:"version"`
	Times      map[string]uint64 `json:"times"`
	UnixTime   int64             `json:"unix_time"`
	Name       string            `json:"name"`
	Email      string            `json:"email"`
	Login      string            `json:"login"`
	AvatarUrl  string            `json:"avatar_url"`
	Keys       []string          `json:"pub_keys"`
	Nonce      []byte            `json:"nonce"`
	Metadata   map[string]string `json:"metadata"`
}

// ReadIdentity decodes the linear chain of versions under ref (oldest first).
func ReadIdentity(r Reader, ref string) ([]*IdentityVersion, error) {
	head, err := r.ResolveRef(ref)
	if err != nil {
		return nil, err
	}
	var chain []*IdentityVersion
	h := string(head)
	seen := map[string]bool{}
	for h != "" {
		if seen[h] {
			return nil, fmt.Errorf("cycle")
		}
		seen[h] = true
		rc, err := r.ReadCommit(repository.Hash(h))
		if err != nil {
			return nil, err
		}
		entries, err := r.ReadTree(rc.TreeHash)
		if err != nil {
			return nil, err
		}
		var v *IdentityVersion
		for _, en := range entries {
			if en.Name == "version" {
				data, err := r.ReadData(en.Hash)
				if err != nil {
					return nil, err
				}
				v = &IdentityVersion{CommitHash: h, Raw: data, Id: Sha256Hex(data)}
				if err := json.Unmarshal(data, v); err != nil {
					return nil, err
				}
			}
		}
		if v == nil {
			return nil, fmt.Errorf("commit %s has no version entry", h)
		}
		chain = append(chain, v)
		if len(rc.Parents) > 1 {
			return nil, fmt.Errorf("identity commit with %d parents", len(rc.Parents))
		}
		if len(rc.Parents) == 1 {
			h = string(rc.Parents[0])
		} else {
			h = ""
		}
	}
	for i, j := 0, len(chain)-1; i < j; i, j = i+1, j-1 {
		chain[i], chain[j] = chain[j], chain[i]
	}
	return chain, nil
}

// RefId returns the last path element of a ref name.
func RefId(ref string) string {
	i := strings.LastIndex(ref, "/")
	return ref[i+1:]
}
