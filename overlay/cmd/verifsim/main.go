// Command verifsim is the one simulator binary: a sub-command per role.
package main

import (
	"runtime"
	"runtime/pprof"
	"encoding/json"
	"flag"
	"fmt"
	"os"
	"strconv"
	"strings"

	_ "github.com/MichaelMure/git-bug/zzverif/apisim"
	_ "github.com/MichaelMure/git-bug/zzverif/bridgesim"
	_ "github.com/MichaelMure/git-bug/zzverif/byzsim"
	_ "github.com/MichaelMure/git-bug/zzverif/procsim"
	_ "github.com/MichaelMure/git-bug/zzverif/repsim"
	_ "github.com/MichaelMure/git-bug/zzverif/schedsim"
	"github.com/MichaelMure/git-bug/zzverif/sim"
)

func envSeed() uint64 {
	if v := os.Getenv("VERIF_SEED"); v != "" {
		if n, err := strconv.ParseUint(v, 10, 64); err == nil {
			return n
		}
	}
	return 1
}

func main() {
	if len(os.Args) < 2 {
		fmt.Fprintln(os.Stderr, "usage: verifsim drive|shard|replay|run|gen ...")
		os.Exit(2)
	}
	cmd := os.Args[1]
	defer sim.CleanupProcessRoot()
	code := 0
	switch cmd {
	case "drive":
		fs := flag.NewFlagSet("drive", flag.ExitOnError)
		tier := fs.String("tier", "quick", "")
		seed := fs.Uint64("seed", envSeed(), "")
		prop := os.Args[2]
		_ = fs.Parse(os.Args[3:])
		code = sim.Drive(prop, *tier, *seed)
	case "shard":
		fs := flag.NewFlagSet("shard", flag.ExitOnError)
		tier := fs.String("tier", "quick", "")
		seed := fs.Uint64("seed", 1, "")
		shard := fs.String("shard", "0/1", "")
		out := fs.String("out", "", "")
		prop := os.Args[2]
		_ = fs.Parse(os.Args[3:])
		var i, n int
		fmt.Sscanf(*shard, "%d/%d", &i, &n)
		sim.RunShard(prop, *tier, *seed, i, n, *out)
		if hp := os.Getenv("VERIF_HEAPPROF"); hp != "" {
			// harness diagnostics: where does the memory of a long shard go
			runtime.GC()
			if f, err := os.Create(hp); err == nil {
				_ = pprof.WriteHeapProfile(f)
				_ = f.Close()
			}
		}
	case "replay":
		verbose := len(os.Args) > 3 && os.Args[3] == "-v"
		code = sim.Replay(os.Args[2], verbose)
	case "run", "gen":
		// verifsim run <prop> --seed S --run N [--tier T] [-v]
		fs := flag.NewFlagSet("run", flag.ExitOnError)
		tier := fs.String("tier", "quick", "")
		seed := fs.Uint64("seed", envSeed(), "")
		run := fs.Int("run", 0, "")
		verbose := fs.Bool("v", false, "")
		prop := os.Args[2]
		_ = fs.Parse(os.Args[3:])
		names := sim.PropEngines[prop]
		if len(names) == 0 {
			fmt.Fprintln(os.Stderr, "no engine for", prop)
			os.Exit(2)
		}
		e := sim.Engines[names[*run%len(names)]]
		plan := e.Generate(prop, *tier, *seed, *run)
		if cmd == "gen" {
			b, _ := json.MarshalIndent(plan, "", " ")
			fmt.Println(string(b))
			break
		}
		res := e.Execute(plan, *verbose)
		if *verbose {
			fmt.Println(strings.Join(res.Trace, "\n"))
		}
		res.Trace = nil
		b, _ := json.MarshalIndent(res, "", " ")
		fmt.Println(string(b))
		if len(res.Violations) > 0 {
			code = 1
		}
		if res.HarnessErr != "" {
			code = 2
		}
	default:
		fmt.Fprintln(os.Stderr, "unknown command", cmd)
		code = 2
	}
	sim.CleanupProcessRoot()
	os.Exit(code)
}
