#!/bin/bash
# tools/sweep.sh <tier> <seed>... : every claimed check at the given tier and seeds, from the directory this
# script lives in (a committed snapshot when started through `vp run`) against a private clone of /repo's
# HEAD, so that neither edits in /verif nor patches being tried in /repo's working tree interfere.
# Evidence and replays go to the snapshot, not to /verif. Prints one summary line per check.
TIER=$1; shift
HERE=$(cd "$(dirname "$0")/.." && pwd)
export GOFLAGS=-mod=mod GOPROXY=off GOSUMDB=off GOTOOLCHAIN=local
SNAP=$(mktemp -d /dev/shm/repo-snap.XXXXXX)
trap 'rm -rf "$SNAP"' EXIT
git clone -q /repo $SNAP || exit 2
echo "sweep tier=$TIER repo=$(git -C $SNAP rev-parse --short HEAD) verif=$HERE"
PROPS=${SWEEP_PROPS:-$(python3 -c "import json; print(' '.join(c['property_id'] for c in json.load(open('$HERE/MANIFEST.json'))['checks']))")}
cd $HERE
mkdir -p bin evidence replays
for seed in "$@"; do
  for p in $PROPS; do
    VERIF_REPO=$SNAP ./build.sh bin/verifsim.$p || { echo "RESULT $p seed=$seed BUILD-FAILED"; continue; }
    t0=$(date +%s)
    VERIF_DIR=$HERE VERIF_SEED=$seed VERIF_SHARDS=${SWEEP_SHARDS:-8} bin/verifsim.$p drive $p --tier $TIER > bin/sweep.$p.$seed.log 2>&1; rc=$?
    echo "RESULT $p seed=$seed tier=$TIER rc=$rc wall=$(( $(date +%s) - t0 ))s $(grep -E '^C[0-9]+: runs=' bin/sweep.$p.$seed.log | cut -c1-160)"
    grep -E "^VIOLATION|^  kind=|harness" bin/sweep.$p.$seed.log | cut -c1-600
    grep -E "^KNOWN-FINDING" bin/sweep.$p.$seed.log | cut -c1-90
  done
done
