// Package verifrtfs is the R-fs seam: repository.GoGitRepo's osfs.New calls are rewritten
// (in the overlay copy only) to verifrtfs.New, so that the simulator sees every file
// operation on .git/git-bug (clock files, cache files, lock file) at system-call
// granularity. Pass-through unless a hook is installed.
package verifrtfs

import (
	"sync"

	"github.com/go-git/go-billy/v5"
	"github.com/go-git/go-billy/v5/osfs"
)

var (
	mu   sync.Mutex
	hook func(root string, fs billy.Filesystem) billy.Filesystem
)

func SetHook(h func(root string, fs billy.Filesystem) billy.Filesystem) {
	mu.Lock()
	hook = h
	mu.Unlock()
}

func New(baseDir string, opts ...osfs.Option) billy.Filesystem {
	fs := osfs.New(baseDir, opts...)
	mu.Lock()
	h := hook
	mu.Unlock()
	if h != nil {
		return h(baseDir, fs)
	}
	return fs
}
