package interrupt

// VerifProcessExit is added by the verification overlay only (rule R-inject): an in-process
// command stands for a process of its own, and when that process exits its registered cleaners
// are gone with it. Without this the package-level list keeps every command's backend alive.
func VerifProcessExit() {
	mu.Lock()
	cleaners = nil
	mu.Unlock()
}
