package repsim

import (
	"fmt"
	"os"
	"path/filepath"
	"sort"
	"strings"

	"github.com/MichaelMure/git-bug/cache"
	"github.com/MichaelMure/git-bug/entities/bug"
	"github.com/MichaelMure/git-bug/entity"
	"github.com/MichaelMure/git-bug/query"
	"github.com/MichaelMure/git-bug/repository"
	"github.com/MichaelMure/git-bug/zzverif/model"
	"github.com/MichaelMure/git-bug/zzverif/sim"
)

func normLabels(l []bug.Label) string {
	var s []string
	for _, x := range l {
		s = append(s, string(x))
	}
	return strings.Join(s, "\x00")
}

func normIds(l []entity.Id) string {
	var s []string
	for _, x := range l {
		s = append(s, string(x))
	}
	return strings.Join(s, ",")
}

func normMap(m map[string]string) string {
	var ks []string
	for k := range m {
		ks = append(ks, k)
	}
	sort.Strings(ks)
	var s []string
	for _, k := range ks {
		s = append(s, k+"="+m[k])
	}
	return strings.Join(s, "\x00")
}

func excerptDiff(a, b *cache.BugExcerpt) string {
	switch {
	case a.CreateLamportTime != b.CreateLamportTime:
		return fmt.Sprintf("CreateLamportTime %d vs %d", a.CreateLamportTime, b.CreateLamportTime)
	case a.EditLamportTime != b.EditLamportTime:
		return fmt.Sprintf("EditLamportTime %d vs %d", a.EditLamportTime, b.EditLamportTime)
	case a.CreateUnixTime != b.CreateUnixTime:
		return fmt.Sprintf("CreateUnixTime %d vs %d", a.CreateUnixTime, b.CreateUnixTime)
	case a.EditUnixTime != b.EditUnixTime:
		return fmt.Sprintf("EditUnixTime %d vs %d", a.EditUnixTime, b.EditUnixTime)
	case a.AuthorId != b.AuthorId:
		return fmt.Sprintf("AuthorId %s vs %s", a.AuthorId, b.AuthorId)
	case a.Status != b.Status:
		return fmt.Sprintf("Status %v vs %v", a.Status, b.Status)
	case normLabels(a.Labels) != normLabels(b.Labels):
		return fmt.Sprintf("Labels %q vs %q", a.Labels, b.Labels)
	case a.Title != b.Title:
		return fmt.Sprintf("Title %q vs %q", a.Title, b.Title)
	case a.LenComments != b.LenComments:
		return fmt.Sprintf("LenComments %d vs %d", a.LenComments, b.LenComments)
	case normIds(a.Actors) != normIds(b.Actors):
		return fmt.Sprintf("Actors %v vs %v", a.Actors, b.Actors)
	case normIds(a.Participants) != normIds(b.Participants):
		return fmt.Sprintf("Participants %v vs %v", a.Participants, b.Participants)
	case normMap(a.CreateMetadata) != normMap(b.CreateMetadata):
		return fmt.Sprintf("CreateMetadata %v vs %v", a.CreateMetadata, b.CreateMetadata)
	}
	return ""
}

// rebuiltCache copies the replica's directory, drops cache and index, and builds a cache there.
func (x *run) rebuiltCache(rs *repState) (*cache.RepoCache, func(), error) {
	tmp := filepath.Join(x.w.Root, fmt.Sprintf("rebuild-%s-%d", rs.r.Name, x.step))
	_ = os.RemoveAll(tmp)
	if err := copyTree(rs.r.Dir, tmp); err != nil {
		return nil, nil, err
	}
	gb := filepath.Join(tmp, ".git", "git-bug")
	_ = os.RemoveAll(filepath.Join(gb, "cache"))
	_ = os.RemoveAll(filepath.Join(gb, "indexes"))
	_ = os.Remove(filepath.Join(gb, "lock"))
	raw, err := repository.OpenGoGitRepo(tmp, "git-bug", nil)
	if err != nil {
		_ = os.RemoveAll(tmp)
		return nil, nil, err
	}
	c, err := cache.NewRepoCacheNoEvents(raw)
	if err != nil {
		_ = raw.Close()
		_ = os.RemoveAll(tmp)
		return nil, nil, err
	}
	return c, func() { _ = c.Close(); _ = os.RemoveAll(tmp) }, nil
}

// querySet builds the queries compared in C11 and judged in C12 from what the replica holds.
func (x *run) querySet(views []*model.BugView, people map[string]model.Person, seed uint64) []model.Q {
	r := sim.NewRand(seed)
	var qs []model.Q
	sorts := []struct {
		by   string
		desc bool
	}{{"creation", true}, {"creation", false}, {"edit", true}, {"edit", false}, {"id", false}, {"id", true}}
	withSort := func(q model.Q) model.Q {
		s := sorts[r.Intn(len(sorts))]
		q.OrderBy, q.Desc, q.SortGiven = s.by, s.desc, true
		return q
	}
	qs = append(qs, model.Q{OrderBy: "creation", Desc: true}) // the empty query: default sort
	for _, s := range sorts {
		qs = append(qs, model.Q{OrderBy: s.by, Desc: s.desc, SortGiven: true})
	}
	qs = append(qs, withSort(model.Q{Status: []string{"open"}}), withSort(model.Q{Status: []string{"closed"}}),
		withSort(model.Q{Status: []string{"open", "closed"}}), withSort(model.Q{NoLabel: true}))
	labels := map[string]bool{}
	titles := map[string]bool{}
	markers := map[string]bool{}
	metas := map[string]string{}
	for _, v := range views {
		for _, l := range v.Snap.Labels {
			labels[l] = true
		}
		for _, w := range strings.Fields(v.Snap.Title) {
			if len(w) > 2 && !strings.ContainsAny(w, `"':`) {
				titles[w] = true
			}
			if strings.HasPrefix(w, "kw") {
				markers[w] = true
			}
		}
		for _, c := range v.Snap.Comments {
			for _, w := range strings.Fields(c.Message) {
				if strings.HasPrefix(w, "kw") && len(w) <= 5 {
					markers[w] = true
				}
			}
		}
		for k, val := range v.CreateMeta {
			metas[k] = val
		}
	}
	ls := sortedKeysB(labels)
	for _, l := range ls {
		qs = append(qs, withSort(model.Q{Label: []string{l}}))
	}
	if len(ls) >= 2 {
		qs = append(qs, withSort(model.Q{Label: []string{ls[0], ls[1]}}), withSort(model.Q{Label: []string{ls[0]}, Status: []string{"open"}}))
	}
	ts := sortedKeysB(titles)
	for i, t := range ts {
		if i < 4 {
			qs = append(qs, withSort(model.Q{Title: []string{strings.ToUpper(t)}}))
		}
	}
	if len(ts) >= 2 {
		qs = append(qs, withSort(model.Q{Title: []string{ts[0], ts[1]}}))
	}
	var pids []string
	for id := range people {
		pids = append(pids, id)
	}
	sort.Strings(pids)
	for _, id := range pids {
		p := people[id]
		qs = append(qs, withSort(model.Q{Author: []string{strings.ToUpper(p.Name)}}), withSort(model.Q{Actor: []string{id[:8]}}),
			withSort(model.Q{Participant: []string{p.Name}}),
			// id prefixes are matched case-insensitively as well
			withSort(model.Q{Author: []string{strings.ToUpper(id[:9])}}), withSort(model.Q{Participant: []string{strings.ToUpper(id[:7])}}),
			withSort(model.Q{Actor: []string{strings.ToUpper(id[:12])}}))
		if p.Login != "" {
			qs = append(qs, withSort(model.Q{Actor: []string{strings.ToUpper(p.Login)}}))
		}
	}
	if len(pids) >= 2 {
		qs = append(qs, withSort(model.Q{Author: []string{people[pids[0]].Name, people[pids[1]].Name}}),
			withSort(model.Q{Actor: []string{pids[0][:8]}, Participant: []string{pids[1][:8]}, Status: []string{"open"}}))
	}
	var mks []string
	for k := range metas {
		mks = append(mks, k)
	}
	sort.Strings(mks)
	for _, k := range mks {
		if !strings.ContainsAny(k+metas[k], `"':`+"\n") {
			qs = append(qs, withSort(model.Q{Metadata: [][2]string{{k, metas[k]}}}))
		}
	}
	// an empty value is a value: it selects the bugs that hold the key with nothing in it, not
	// the bugs without the key (and together with another pair it is any-of as usual)
	qs = append(qs, withSort(model.Q{Metadata: [][2]string{{"origin", ""}}}), withSort(model.Q{Metadata: [][2]string{{"never-set", ""}}}))
	if len(mks) > 0 && !strings.ContainsAny(mks[0]+metas[mks[0]], `"':`+"\n") {
		qs = append(qs, withSort(model.Q{Metadata: [][2]string{{mks[0], metas[mks[0]]}, {"never-set", ""}}}))
	}
	for _, m := range sortedKeysB(markers) {
		qs = append(qs, withSort(model.Q{Search: []string{m}}), withSort(model.Q{Search: []string{m}, Status: []string{"open"}}))
	}
	return qs
}

func sortedKeysB(m map[string]bool) []string {
	var out []string
	for k := range m {
		out = append(out, k)
	}
	sort.Strings(out)
	return out
}

// referenceViews decodes what the replica holds with the reference models.
func (x *run) referenceViews(rs *repState) ([]*model.BugView, map[string]*model.BugView, map[string]model.Person) {
	raw := rs.r.Raw
	var views []*model.BugView
	byId := map[string]*model.BugView{}
	refs, _ := raw.ListRefs("refs/bugs/")
	sort.Strings(refs)
	for _, ref := range refs {
		bo := decodeBug(raw, ref)
		if bo.Err != nil {
			continue
		}
		snap := model.Interpret(bo.Ent.OrderedOps())
		v := &model.BugView{Snap: snap, CreateLamport: bo.Ent.MaxCreate(), EditLamport: bo.Ent.MaxEdit(), CreateMeta: snap.OpMeta[snap.Id]}
		views = append(views, v)
		byId[snap.Id] = v
	}
	people := map[string]model.Person{}
	irefs, _ := raw.ListRefs("refs/identities/")
	for _, ref := range irefs {
		chain, err := model.ReadIdentity(raw, ref)
		if err != nil || len(chain) == 0 {
			continue
		}
		last := chain[len(chain)-1]
		people[model.RefId(ref)] = model.Person{Id: model.RefId(ref), Name: last.Name, Login: last.Login}
	}
	return views, byId, people
}

func idStrings(ids []entity.Id) []string {
	out := make([]string, len(ids))
	for i, id := range ids {
		out[i] = string(id)
	}
	return out
}

func sortedCopy(s []string) []string {
	c := append([]string{}, s...)
	sort.Strings(c)
	return c
}

// cacheChecks runs the C11 (live cache vs rebuilt cache) and C12 (live cache vs reference
// evaluator) comparisons on a cache replica at a quiescent point.
func (x *run) cacheChecks(rs *repState, final bool) {
	if rs.r.Cache == nil || !x.on("C11", "C12") {
		return
	}
	live := rs.r.Cache
	if len(rs.discarded) > 0 {
		// attribute what follows to the recorded finding (the plan closed a cache that held
		// uncommitted operations): violations raised inside get a marked detail
		var ids []string
		for id := range rs.discarded {
			ids = append(ids, id[:7])
		}
		sort.Strings(ids)
		x.detailPrefix = fmt.Sprintf("after a close that discarded uncommitted operations of %v: ", ids)
		defer func() { x.detailPrefix = "" }()
	}
	if len(rs.discardedIdent) > 0 && x.detailPrefix == "" {
		var ids []string
		for id := range rs.discardedIdent {
			ids = append(ids, id[:7])
		}
		sort.Strings(ids)
		x.detailPrefix = fmt.Sprintf("after a close that discarded an uncommitted version of identity %v: ", ids)
		defer func() { x.detailPrefix = "" }()
	}
	views, byId, people := x.referenceViews(rs)
	nothingStaged := len(rs.staged) == 0
	qs := x.querySet(views, people, sim.Mix(x.p.RunSeed, uint64(x.step)+5))

	runQuery := func(c *cache.RepoCache, q model.Q) ([]string, error) {
		pq, err := query.Parse(q.Render())
		if err != nil {
			return nil, fmt.Errorf("parse %q: %w", q.Render(), err)
		}
		ids, err := c.Bugs().Query(pq)
		return idStrings(ids), err
	}

	// ---- C12: the live cache against the reference evaluator
	if x.on("C12") && nothingStaged {
		for _, q := range qs {
			got, err := x.guardQuery(func() ([]string, error) { return runQuery(live, q) })
			if err != nil {
				x.violate("result-set-differs", "query %q fails on %s: %v", q.Render(), rs.r.Name, err)
				continue
			}
			x.ntProbes["query"] = true
			want := q.Eval(views, people)
			seen := map[string]bool{}
			for _, id := range got {
				if seen[id] {
					x.violate("duplicate-in-result", "query %q on %s returns %s twice", q.Render(), rs.r.Name, id[:7])
				}
				seen[id] = true
			}
			if len(q.Search) > 0 {
				x.probe("search_query_judged")
				if len(want) > 10 {
					x.probe("search_expected_more_than_10_hits")
				}
			}
			if !eq(sortedCopy(got), want) {
				x.violate("result-set-differs", "query %q on %s (%d bugs): got %s, the documented semantics give %s", q.Render(), rs.r.Name, len(views), sh(sortedCopy(got)), sh(want))
				continue
			}
			if msg := q.CheckSorted(got, byId); msg != "" {
				kind := "not-sorted"
				if q.OrderBy != "id" {
					// is the result sorted by wall-clock time instead?
					kind = "not-sorted"
					if sortedByUnix(got, byId, q) {
						kind = "order-follows-wall-clock"
					}
				}
				x.violate(kind, "query %q on %s: %s (result %s)", q.Render(), rs.r.Name, msg, sh(got))
			}
			if len(got) > 1 {
				x.probe("query_with_several_results")
			}
			if len(got) > 10 {
				x.probe("query_with_more_than_10_results")
			}
		}
	}

	if !x.on("C11") {
		return
	}
	// ---- C11: the live cache against a cache rebuilt from the git data
	rebuilt, cleanup, err := x.rebuiltCache(rs)
	if err != nil {
		x.violate("ids-differ", "a cache cannot be rebuilt from the git data of %s: %v", rs.r.Name, err)
		return
	}
	defer cleanup()
	x.ntProbes["rebuild"] = true
	la, ra := sortedCopy(idStrings(live.Bugs().AllIds())), sortedCopy(idStrings(rebuilt.Bugs().AllIds()))
	if !eq(la, ra) {
		x.violate("ids-differ", "bugs listed by the cache of %s: %s, by a rebuilt cache: %s", rs.r.Name, sh(la), sh(ra))
	}
	li, ri := sortedCopy(idStrings(live.Identities().AllIds())), sortedCopy(idStrings(rebuilt.Identities().AllIds()))
	if !eq(li, ri) {
		x.violate("ids-differ", "identities listed by the cache of %s: %s, by a rebuilt cache: %s", rs.r.Name, sh(li), sh(ri))
	}
	for _, id := range ra {
		if rs.staged[id] {
			continue
		}
		le, err1 := live.Bugs().ResolveExcerpt(entity.Id(id))
		re, err2 := rebuilt.Bugs().ResolveExcerpt(entity.Id(id))
		if err1 != nil || err2 != nil {
			if err1 != nil && err2 == nil {
				x.violate("excerpt-differs", "bug %s has no excerpt in the cache of %s: %v", id[:7], rs.r.Name, err1)
			}
			continue
		}
		if d := excerptDiff(le, re); d != "" {
			x.violate("excerpt-differs", "bug %s on %s: live cache vs rebuilt cache: %s", id[:7], rs.r.Name, d)
		}
	}
	for _, id := range ri {
		le, err1 := live.Identities().ResolveExcerpt(entity.Id(id))
		re, err2 := rebuilt.Identities().ResolveExcerpt(entity.Id(id))
		if err1 != nil || err2 != nil {
			if err1 != nil && err2 == nil {
				x.violate("identity-excerpt-differs", "identity %s has no excerpt in the cache of %s: %v", id[:7], rs.r.Name, err1)
			}
			continue
		}
		if le.Name != re.Name || le.Login != re.Login || normMap(le.ImmutableMetadata) != normMap(re.ImmutableMetadata) {
			x.violate("identity-excerpt-differs", "identity %s on %s: live (%q,%q,%v) vs rebuilt (%q,%q,%v)", id[:7], rs.r.Name, le.Name, le.Login, le.ImmutableMetadata, re.Name, re.Login, re.ImmutableMetadata)
		}
	}
	if nothingStaged {
		ll, rl := live.Bugs().ValidLabels(), rebuilt.Bugs().ValidLabels()
		if normLabels(ll) != normLabels(rl) {
			x.violate("labels-differ", "known labels on %s: live %q vs rebuilt %q", rs.r.Name, ll, rl)
		}
		for _, q := range qs {
			lg, err1 := x.guardQuery(func() ([]string, error) { return runQuery(live, q) })
			rg, err2 := x.guardQuery(func() ([]string, error) { return runQuery(rebuilt, q) })
			if err1 != nil || err2 != nil {
				if (err1 == nil) != (err2 == nil) {
					x.violate("query-differs", "query %q: live cache error %v, rebuilt cache error %v", q.Render(), err1, err2)
				}
				continue
			}
			kind := "query-differs"
			if len(q.Search) > 0 {
				kind = "search-differs"
				x.probe("search_compared")
			}
			if !eq(sortedCopy(lg), sortedCopy(rg)) {
				x.violate(kind, "query %q on %s: live cache returns %s, a rebuilt cache %s", q.Render(), rs.r.Name, sh(sortedCopy(lg)), sh(sortedCopy(rg)))
			}
		}
		// metadata look-ups
		for _, v := range views {
			for k, val := range v.CreateMeta {
				lb, err1 := live.Bugs().ResolveBugCreateMetadata(k, val)
				rb, err2 := rebuilt.Bugs().ResolveBugCreateMetadata(k, val)
				if (err1 == nil) != (err2 == nil) || (err1 == nil && lb.Id() != rb.Id()) {
					x.violate("metadata-lookup-differs", "look-up of create metadata %s=%q on %s: live (%v) vs rebuilt (%v)", k, val, rs.r.Name, err1, err2)
				}
				x.probe("metadata_lookup_compared")
			}
		}
	}
	// resolved state: only at the end of the run, resolving perturbs the live cache
	if final {
		for _, id := range ra {
			if rs.staged[id] {
				continue
			}
			lb, err1 := live.Bugs().Resolve(entity.Id(id))
			rb, err2 := rebuilt.Bugs().Resolve(entity.Id(id))
			if err1 != nil || err2 != nil {
				if (err1 == nil) != (err2 == nil) {
					x.violate("snapshot-differs", "bug %s on %s: live resolve error %v, rebuilt resolve error %v", id[:7], rs.r.Name, err1, err2)
				}
				continue
			}
			if k, d := model.FromSnapshot(lb.Snapshot()).Diff(model.FromSnapshot(rb.Snapshot())); k != "" {
				x.violate("snapshot-differs", "bug %s on %s: resolved state differs from a rebuilt cache in %s: %s", id[:7], rs.r.Name, k, d)
			}
		}
	}
}

func sortedByUnix(got []string, byId map[string]*model.BugView, q model.Q) bool {
	for i := 1; i < len(got); i++ {
		a, b := byId[got[i-1]], byId[got[i]]
		if a == nil || b == nil {
			return false
		}
		ta, tb := a.Snap.CreateUnix, b.Snap.CreateUnix
		if q.OrderBy == "edit" {
			ta, tb = a.Snap.EditUnix, b.Snap.EditUnix
		}
		if q.Desc && ta < tb || !q.Desc && ta > tb {
			return false
		}
	}
	return true
}

func (x *run) guardQuery(f func() ([]string, error)) (ids []string, err error) {
	defer func() {
		if r := recover(); r != nil {
			x.notePanic("query", r)
			err = fmt.Errorf("PANIC: %v", r)
		}
	}()
	return f()
}

// parseChecks: arbitrary strings never crash the parser, structured queries round-trip,
// malformed ones are rejected (C12).
func (x *run) parseChecks(seed uint64) {
	if !x.on("C12") {
		return
	}
	r := sim.NewRand(seed)
	alphabet := []string{`"`, `'`, ":", " ", "status", "open", "sort", "author", "é", "日本", "no", "label", "metadata", "-", "edit", "\t", "x"}
	for i := 0; i < 40; i++ {
		var b strings.Builder
		n := r.Range(0, 12)
		for k := 0; k < n; k++ {
			b.WriteString(alphabet[r.Intn(len(alphabet))])
		}
		s := b.String()
		func() {
			defer func() {
				if rec := recover(); rec != nil {
					x.violate("parse-panic", "query.Parse(%q) panics: %v", s, rec)
				}
			}()
			_, _ = query.Parse(s)
		}()
		x.probe("arbitrary_string_parsed")
	}
	// round trip
	qs := []model.Q{
		{Status: []string{"open"}, Label: []string{"needs triage", "bug"}, Title: []string{"two words"}, OrderBy: "edit", Desc: false, SortGiven: true},
		{Author: []string{"René Descartes"}, Actor: []string{"abc123"}, Participant: []string{"x y"}, NoLabel: true, OrderBy: "id", Desc: true, SortGiven: true},
		{Metadata: [][2]string{{"github-url", "https://x/y"}}, Search: []string{"kw1", "two words"}, OrderBy: "creation", Desc: true},
	}
	// generated: values of the documented grammar (double quotes delimit a multi-word value; anything
	// but a double quote may stand inside them: apostrophes, colons, other scripts)
	vals := []string{"plain", "two words", "don't panic", "O'Brien Jr", "it's: here", "a:b", "日本 語", "l'été 'quoted' twice", "tab\tless", "x"}
	pick := func() string { return vals[r.Intn(len(vals))] }
	for i := 0; i < 10; i++ {
		q := model.Q{OrderBy: []string{"id", "creation", "edit"}[r.Intn(3)], Desc: r.Chance(0.5), SortGiven: true}
		for k := r.Intn(3); k > 0; k-- {
			switch r.Intn(7) {
			case 0:
				q.Author = append(q.Author, pick())
			case 1:
				q.Actor = append(q.Actor, pick())
			case 2:
				q.Participant = append(q.Participant, pick())
			case 3:
				q.Label = append(q.Label, pick())
			case 4:
				q.Title = append(q.Title, pick())
			case 5:
				q.Metadata = append(q.Metadata, [2]string{"key", pick()})
			case 6:
				q.Search = append(q.Search, pick())
			}
		}
		qs = append(qs, q)
	}
	for _, q := range qs {
		pq, err := query.Parse(q.Render())
		if err != nil {
			x.violate("roundtrip-differs", "query %q does not parse: %v", q.Render(), err)
			continue
		}
		var st []string
		for _, s := range pq.Status {
			st = append(st, s.String())
		}
		md := [][2]string{}
		for _, m := range pq.Metadata {
			md = append(md, [2]string{m.Key, m.Value})
		}
		orderBy := map[query.OrderBy]string{query.OrderById: "id", query.OrderByCreation: "creation", query.OrderByEdit: "edit"}[pq.OrderBy]
		ok := eq(st, q.Status) && eq(pq.Author, q.Author) && eq(pq.Actor, q.Actor) && eq(pq.Participant, q.Participant) &&
			eq(pq.Label, q.Label) && eq(pq.Title, q.Title) && pq.NoLabel == q.NoLabel && eq([]string(pq.Search), q.Search) &&
			orderBy == q.OrderBy && (pq.OrderDirection == query.OrderDescending) == q.Desc && fmt.Sprint(md) == fmt.Sprint(append([][2]string{}, q.Metadata...))
		if !ok {
			x.violate("roundtrip-differs", "query %q parsed to %+v", q.Render(), *pq)
		}
		x.probe("roundtrip_checked")
	}
	bads := []string{`status:`, `:open`, `author:"unterminated`, `sort:id sort:edit`, `sort:nope`, `status:maybe`, `unknown:x`, `no:thing`, `a:b:c:d`, `metadata:k`}
	// at most one sort: every pair of sort qualifiers, whatever they are (the default one included),
	// next to each other or with another qualifier in between
	var sorts []string
	for _, k := range []string{"id", "creation", "edit"} {
		for _, d := range []string{"", "-asc", "-desc"} {
			sorts = append(sorts, "sort:"+k+d)
		}
	}
	for i, a := range sorts {
		for j, b := range sorts {
			if (i+j)%2 == 0 {
				bads = append(bads, a+" "+b)
			} else {
				bads = append(bads, a+" status:open "+b)
			}
		}
	}
	for _, bad := range bads {
		if _, err := query.Parse(bad); err == nil {
			x.violate("malformed-accepted", "malformed query %q was accepted", bad)
		}
		x.probe("malformed_rejected")
	}
}
