package byzsim

import (
	"fmt"
	"os"
	"path/filepath"
	"sort"
	"strconv"
	"strings"

	"github.com/MichaelMure/git-bug/cache"
	"github.com/MichaelMure/git-bug/entities/bug"
	"github.com/MichaelMure/git-bug/entities/identity"
	"github.com/MichaelMure/git-bug/entity"
	"github.com/MichaelMure/git-bug/repository"
	"github.com/MichaelMure/git-bug/zzverif/model"
	"github.com/MichaelMure/git-bug/zzverif/sim"
	"github.com/MichaelMure/git-bug/zzverif/verifrt"
)

type Engine struct{}

func (e *Engine) Name() string { return "byzsim" }

func init() {
	sim.Register(&Engine{}, "C07", "C03", "C09", "C08")
}

var situations = []string{"absent", "equal", "ahead", "behind", "diverged"}

func (e *Engine) Describe(prop string) sim.PropInfo {
	info := sim.PropInfo{Level: "fault_enumeration",
		Real: []string{"entity/dag", "entities/bug", "entities/identity", "cache (cache-level victims)", "repository.GoGitRepo on tmpfs", "go-git client side of fetch"},
		Stub: []string{"the remote: an adversary writing refs and objects with its own encoder of the documented format into the hub repository", "server side of the git transport (go-git in-process server)", "wall clock, crypto/rand.Reader, keyring"},
		Assumptions: []string{
			"hostile data is served at the level of git-bug's data model (refs, commits, trees, blobs); a hostile git wire protocol is go-git's concern and out of scope",
			"deviations whose acceptance is harmless and that the documented format tolerates are judged two-sidedly (reject, or accept and stay readable and valid)",
		}}
	switch prop {
	case "C07":
		info.Rule = "per run one generated valid bug history (3-7 commits with forks and merges, 1-2 authors) and every mutation of the catalogue (tree entries, ops blob, author, single operations and fields, commit graph, clocks, ref names/targets, seeded byte flips) applied at EVERY applicable commit / operation position, crossed with the victim's local situation (absent, equal, ahead, behind, diverged) and entry point (entity API, cache API) by rotation; plus identity histories with per-version mutations and corrupt data under local refs; evaluations = cases; non-trivial = case in which the victim actually fetched and merged the crafted ref; distinct = distinct (mutation, position, situation, entry) keys"
		info.Kinds = []string{"panic", "hostile-accepted", "local-ref-changed", "local-entity-changed", "bystander-not-merged", "accepted-but-unreadable", "local-corruption-crash"}
	case "C03":
		info.Rule = "crafted commit DAGs (every fork/merge shape the generator produces up to 8 commits) with clock perturbations: child clock <= parent, merge clock behind a parent, implausible jump on a non-merge commit, second root, root without creation time, merge commit carrying operations (must be refused); small jump, long-delayed merge, equal edit times on concurrent commits (controls: must be accepted and ordered by (edit time, pack id)); at every applicable position; non-trivial = case judged; distinct = (mutation, position, shape) keys"
		info.Kinds = []string{"bad-history-accepted", "good-history-refused", "order-not-(edit,packid)", "panic"}
	case "C08":
		info.Rule = "per run one generated key history of the author identity (2-5 versions adding, removing and rotating keys at increasing logical edit times, created through git-bug's own identity API on an honest replica with the edit clock driven to the wanted values) crossed with a commit at every logical time around each change (T-1, T, T+1, T+3) in every signing mode: key in force, removed key, not-yet-valid key, stranger's key, unsigned, valid signature transplanted onto altered content, and git-bug's own signing path; the victim runs the real fetch+merge; reference = keys of the last version whose time <= T; evaluations = cases; distinct = (mode, keys in force, time class)"
		info.Kinds = []string{"panic", "bad-signature-accepted", "unsigned-accepted-with-key-in-force", "good-signature-refused", "unsigned-refused-without-key"}
		info.Assumptions = append(info.Assumptions, "PGP keys come from a committed pool of 5 RSA keys generated once with identity.GenerateKey")
	case "C09":
		info.Rule = "crafted identity version chains (1-3 versions) with per-version mutations: decreasing clocks, dropped clocks, no name and login, unsafe characters, wrong format version, not JSON, missing/extra tree entries, ref/id mismatch; crossed with local situation (absent, equal, behind); must be refused with the local identity untouched; a valid chain is the control; plus, per run, two of the eighteen shapes (1-2 common versions, 0-2 more locally, 0-2 more on the remote) of a pair of valid chains, whose merge is executed once without a fault and then once for EVERY read call it issued with that read failing: the local chain stays what it was or, when the remote extends it, becomes the remote chain; distinct = (mutation, position, situation)"
		info.Kinds = []string{"invalid-identity-accepted", "diverged-changed-local", "history-not-append-only", "ff-not-applied", "panic"}
	}
	return info
}

func (e *Engine) Simplify(s sim.Step) []sim.Step { return nil }

func propOwns(m mutation, prop string) bool { return strings.Contains(m.Props, prop) }

func (e *Engine) Generate(prop, tier string, seed uint64, run int) *sim.Plan {
	rs := sim.Mix(seed, uint64(run)+0xB12)
	r := sim.NewRand(rs)
	p := &sim.Plan{Property: prop, Engine: "byzsim", Tier: tier, Seed: seed, Run: run, RunSeed: rs, Cfg: map[string]interface{}{}}
	n := r.Range(3, 7)
	if tier == "thorough" {
		n = r.Range(3, 9)
	}
	p.Cfg["commits"] = n
	p.Cfg["authors"] = r.Range(1, 2)
	h := baseHistory(p)
	id := 0
	caseNo := run // rotation offset differs per run
	addCase := func(op, name string, c, o int) {
		id++
		caseNo++
		st := sim.Step{Id: id, Op: op, K: name, N: c, B: o, S: situations[caseNo%len(situations)], T: []string{"entity", "cache"}[(caseNo/len(situations))%2]}
		if name == "byte-flip" {
			st.A = r.Intn(1 << 20)
		}
		p.Steps = append(p.Steps, st)
	}
	if prop == "C07" || prop == "C03" {
		for _, m := range catalogue {
			if !propOwns(m, prop) {
				continue
			}
			switch m.Level {
			case "ref":
				addCase("bug", m.Name, 0, 0)
			case "commit":
				for c := range h.Nodes {
					if m.Applies(h, c, 0) {
						addCase("bug", m.Name, c, 0)
						// a deviation that must be refused stays one whatever harmless oddity another
						// commit of the same history carries: a third of these cases get a companion
						if m.Verdict == "reject" && len(h.Nodes) > 1 {
							// (deviations of the root, which alone carries the creation data, with every companion)
							for _, cm := range companions {
								if c != 0 && r.Intn(3*len(companions)) != 0 {
									continue
								}
								c2 := r.Intn(len(h.Nodes))
								if k := findMutation(cm); k != nil && c2 != c && k.Applies(h, c2, 0) {
									addCase("bug", m.Name, c, 0)
									p.Steps[len(p.Steps)-1].L = []string{cm, strconv.Itoa(c2)}
								}
							}
						}
						if m.Name == "byte-flip" {
							for k := 0; k < 3; k++ {
								addCase("bug", m.Name, c, 0)
							}
						}
					}
				}
			case "op":
				for c := range h.Nodes {
					for o := range h.Nodes[c].Spec.Ops {
						// one operation per commit is enough for type-level mutations, all of them in thorough
						if o > 0 && tier != "thorough" {
							continue
						}
						if m.Applies(h, c, o) {
							addCase("bug", m.Name, c, o)
						}
					}
				}
			}
		}
	}
	if prop == "C07" {
		// corrupt data under local refs: a sample of the catalogue
		for _, m := range catalogue {
			if m.Level == "ref" || m.Verdict == "accept" || m.Name == "byte-flip" {
				continue
			}
			c := r.Intn(len(h.Nodes))
			o := 0
			if m.Applies(h, c, o) {
				addCase("local", m.Name, c, o)
			}
		}
	}
	if prop == "C08" {
		e.genSigCases(p, r)
	}
	if prop == "C09" {
		// two of the eighteen (common, local, remote) chain shapes per run, each merged once per read call failing
		fr := sim.NewRand(sim.Mix(rs, 0xFA17))
		for k := 0; k < 2; k++ {
			addCase("identfault", "read-error", fr.Intn(18), 0)
		}
	}
	if prop == "C07" || prop == "C09" {
		for _, m := range identCatalogue {
			for v := 0; v < 3; v++ {
				if m.Applies(v) {
					addCase("ident", m.Name, v, 0)
				}
			}
		}
	}
	return p
}

func baseHistory(p *sim.Plan) *history {
	g := &gen{r: sim.NewRand(sim.Mix(p.RunSeed, 1)), wall: 1_690_000_000}
	na := p.CfgInt("authors", 1)
	for i := 0; i < na; i++ {
		g.authors = append(g.authors, fmt.Sprintf("@author%d", i)) // placeholders, replaced per case
	}
	return g.genHistory(p.CfgInt("commits", 4))
}

// caseWorld is the small world of one case.
type caseWorld struct {
	w      *sim.World
	goBase int64 // git-bug goroutines alive when the case began
	honest *sim.Replica
	victim *sim.Replica
	adv    *repository.GoGitRepo // adversary's handle on hub1 (the hostile remote)
	pub    *repository.GoGitRepo // handle on hub0 (the honest remote the victim synchronised with before)
	authors []string
}

func newCaseWorld(p *sim.Plan, st *sim.Step, keep bool) (*caseWorld, error) {
	w := sim.NewWorld(sim.Mix(p.RunSeed, uint64(st.Id)), keep)
	cw := &caseWorld{w: w, goBase: verifrt.LiveGoroutines()}
	hub := w.AddHub("hub0")
	hub1 := w.AddHub("hub1")
	cw.honest = w.AddReplica("honest", "entity", 1_690_000_000)
	level := st.T
	if level == "" {
		level = "entity"
	}
	cw.victim = w.AddReplica("victim", level, 1_690_500_000)
	for i, r := range []*sim.Replica{cw.honest, cw.victim} {
		w.Act(r)
		sim.SetRandStep(uint64(50 + i))
		if err := r.Init(); err != nil {
			return nil, err
		}
		if err := r.AddRemote("hub0", hub); err != nil {
			return nil, err
		}
		if err := r.AddRemote("hub1", hub1); err != nil {
			return nil, err
		}
	}
	// honest authors
	w.Act(cw.honest)
	for i := 0; i < p.CfgInt("authors", 1); i++ {
		sim.SetRandStep(uint64(60 + i))
		idt, err := identity.NewIdentity(cw.honest.Sim, fmt.Sprintf("author%d", i), fmt.Sprintf("a%d@example.org", i))
		if err != nil {
			return nil, err
		}
		if err := idt.Commit(cw.honest.Sim); err != nil {
			return nil, err
		}
		cw.authors = append(cw.authors, string(idt.Id()))
	}
	if _, err := identity.Push(cw.honest.Sim, "hub0"); err != nil {
		return nil, fmt.Errorf("honest push: %w", err)
	}
	// the victim's own user
	w.Act(cw.victim)
	sim.SetRandStep(70)
	if cw.victim.Cache != nil {
		ic, err := cw.victim.Cache.Identities().New("victim", "v@example.org")
		if err != nil {
			return nil, err
		}
		if err := cw.victim.Cache.SetUserIdentity(ic); err != nil {
			return nil, err
		}
	} else {
		idt, err := identity.NewIdentity(cw.victim.Sim, "victim", "v@example.org")
		if err != nil {
			return nil, err
		}
		if err := idt.Commit(cw.victim.Sim); err != nil {
			return nil, err
		}
		if err := identity.SetUserIdentity(cw.victim.Sim, idt); err != nil {
			return nil, err
		}
	}
	pub, err := repository.OpenGoGitRepo(hub.Dir, "git-bug-adversary", nil)
	if err != nil {
		return nil, fmt.Errorf("publisher handle: %w", err)
	}
	cw.pub = pub
	adv, err := repository.OpenGoGitRepo(hub1.Dir, "git-bug-adversary", nil)
	if err != nil {
		return nil, fmt.Errorf("adversary handle: %w", err)
	}
	cw.adv = adv
	// the hostile remote also serves the honest identities
	if _, err := identity.Push(cw.honest.Sim, "hub1"); err != nil {
		return nil, fmt.Errorf("honest push to hub1: %w", err)
	}
	// the adversary's writes carry a constant timestamp: equal nodes give equal commits
	w.Act(nil)
	return cw, nil
}

func (cw *caseWorld) close() {
	if cw.adv != nil {
		_ = cw.adv.Close()
	}
	if cw.pub != nil {
		_ = cw.pub.Close()
	}
	cw.w.Close()
}

// withAuthors replaces the placeholder author ids by the honest identities.
func (h *history) withAuthors(authors []string) {
	for _, n := range h.Nodes {
		if strings.HasPrefix(n.Spec.Author, "@author") {
			var i int
			fmt.Sscanf(n.Spec.Author, "@author%d", &i)
			n.Spec.Author = authors[i%len(authors)]
		}
	}
}

type mergeOut struct {
	Id     string
	Status entity.MergeStatus
	Reason string
	Err    error
	Ent    entity.Interface
}

// victimPull runs the real fetch + MergeAll on the victim.
func (cw *caseWorld) victimPull(remote string) (outs []mergeOut, err error) {
	v := cw.victim
	cw.w.Act(v)
	defer func() {
		if r := recover(); r != nil {
			verifrt.RecordPanic("victim pull (calling goroutine)", r)
			err = fmt.Errorf("PANIC: %v", r)
		}
	}()
	collect := func(res entity.MergeResult) {
		outs = append(outs, mergeOut{Id: string(res.Id), Status: res.Status, Reason: res.Reason, Err: res.Err, Ent: res.Entity})
	}
	if v.Cache != nil {
		if _, err := v.Cache.Fetch(remote); err != nil {
			return nil, fmt.Errorf("fetch: %w", err)
		}
		for res := range v.Cache.MergeAll(remote) {
			collect(res)
		}
		return outs, nil
	}
	if _, err := identity.Fetch(v.Sim, remote); err != nil {
		return nil, fmt.Errorf("fetch: %w", err)
	}
	if _, err := bug.Fetch(v.Sim, remote); err != nil {
		return nil, fmt.Errorf("fetch: %w", err)
	}
	for res := range identity.MergeAll(v.Sim, remote) {
		collect(res)
	}
	author, err := identity.GetUserIdentity(v.Sim)
	if err != nil {
		return outs, err
	}
	resolvers := entity.Resolvers{&identity.Identity{}: identity.NewSimpleResolver(v.Sim)}
	for res := range bug.MergeAll(v.Sim, resolvers, remote, author) {
		collect(res)
	}
	return outs, nil
}

// victimEdit appends one comment to a local bug through the public API.
func (cw *caseWorld) victimEdit(id string) error {
	v := cw.victim
	cw.w.Act(v)
	v.Wall += 100
	sim.SetRandStep(80)
	if v.Cache != nil {
		bc, err := v.Cache.Bugs().Resolve(entity.Id(id))
		if err != nil {
			return err
		}
		if _, _, err := bc.AddComment("local edit by the victim"); err != nil {
			return err
		}
		return bc.Commit()
	}
	b, err := bug.Read(v.Sim, entity.Id(id))
	if err != nil {
		return err
	}
	author, err := identity.GetUserIdentity(v.Sim)
	if err != nil {
		return err
	}
	if _, _, err := bug.AddComment(b, author, v.Wall, "local edit by the victim", nil, nil); err != nil {
		return err
	}
	return b.Commit(v.Sim)
}

func localState(raw *repository.GoGitRepo) (refs map[string]string, ops map[string]string) {
	refs = map[string]string{}
	ops = map[string]string{}
	for _, pfx := range []string{"refs/bugs/", "refs/identities/"} {
		t, _ := sim.RefTable(raw, pfx)
		for k, v := range t {
			refs[k] = v
		}
	}
	rs, _ := raw.ListRefs("refs/bugs/")
	for _, ref := range rs {
		e, err := model.ReadEntity(raw, ref)
		if err != nil {
			ops[ref] = "ERR " + err.Error()
			continue
		}
		ops[ref] = strings.Join(e.OrderedOpIds(), ",")
	}
	return
}

func statusName(s entity.MergeStatus) string {
	switch s {
	case entity.MergeStatusNew:
		return "new"
	case entity.MergeStatusInvalid:
		return "invalid"
	case entity.MergeStatusUpdated:
		return "updated"
	case entity.MergeStatusNothing:
		return "nothing"
	case entity.MergeStatusError:
		return "error"
	}
	return "none"
}

func (e *Engine) Execute(p *sim.Plan, keepLog bool) (res *sim.RunResult) {
	res = &sim.RunResult{Faults: map[string]int{}, Probes: map[string]int{}}
	viol := map[string]bool{}
	keys := map[string]bool{}
	hashParts := []string{}
	for i := range p.Steps {
		st := &p.Steps[i]
		res.Steps++
		res.Cases++
		var vs []sim.Violation
		var note string
		func() {
			defer func() {
				if r := recover(); r != nil {
					res.HarnessErr = fmt.Sprintf("harness panic in case %s/%d: %v", st.K, st.N, r)
				}
			}()
			switch st.Op {
			case "bug":
				vs, note = e.bugCase(p, st, res, keepLog)
			case "local":
				vs, note = e.localCase(p, st, res, keepLog)
			case "ident":
				vs, note = e.identCase(p, st, res, keepLog)
			case "sig":
				vs, note = e.sigCase(p, st, res, keepLog)
			case "identfault":
				vs, note = e.identFaultCase(p, st, res, keepLog)
			}
		}()
		if res.HarnessErr != "" {
			return res
		}
		if note != "skipped" {
			res.StepsOK++
			keys[fmt.Sprintf("%s/%s/%d/%d/%s/%s/%v", st.Op, st.K, st.N, st.B, st.S, st.T, st.L)] = true
		}
		hashParts = append(hashParts, fmt.Sprintf("%d:%s:%s:%d", st.Id, st.K, note, len(vs)))
		for _, v := range vs {
			v.Step = i
			key := v.Kind
			if os.Getenv("VERIF_ALL_VIOLATIONS") != "" {
				key = v.Kind + "/" + st.K
			}
			if !viol[key] {
				viol[key] = true
				res.Violations = append(res.Violations, v)
			}
		}
		res.Faults["hostile-case"]++
	}
	res.LogHash = model.Sha256Hex([]byte(strings.Join(hashParts, "\n")))[:16]
	if keepLog {
		res.Trace = append(res.Trace, hashParts...)
	}
	if len(keys) > 0 {
		// every judged case is non-trivial: it carries a crafted history through the real merge
		ks := make([]string, 0, len(keys))
		for k := range keys {
			ks = append(ks, k)
		}
		sort.Strings(ks)
		res.NTKey = "cases:" + model.Sha256Hex([]byte(strings.Join(ks, "\n")))[:12]
		res.Probes["distinct_case_keys"] = len(ks)
	}
	return res
}

// companions are deviations the statement does not name (or controls), each confined to the tree
// or the clock of one commit: added to another commit they must not turn a refusal into an acceptance.
var companions = []string{"create-clock-on-non-root", "extra-unknown-entry", "edit-clock-duplicated", "version-entry-duplicated-conflicting", "clock-jump-1000-control"}

func findMutation(name string) *mutation {
	for i := range catalogue {
		if catalogue[i].Name == name {
			return &catalogue[i]
		}
	}
	return nil
}

// publish stores the closure of node `upto` through the adversary handle and points ref at it.
func (cw *caseWorld) publish(w *repository.GoGitRepo, h *history, upto int, refName string) (repository.Hash, error) {
	if h.Recommit {
		// same content, other commits: the commits carry another timestamp
		cw.w.IdleWall = 1_700_000_777
		defer func() { cw.w.IdleWall = 1_700_000_000 }()
	}
	head, err := h.store(w, upto)
	if err != nil {
		return "", err
	}
	target := head
	switch h.RawRefTarget {
	case "blob":
		target, _ = w.StoreData([]byte("just a blob"))
	case "tree":
		target, _ = model.StoreEntries(w, h.Nodes[upto].entries())
	}
	return head, w.UpdateRef("refs/bugs/"+refName, target)
}

func flipBytes(data []byte, seed int) []byte {
	out := append([]byte{}, data...)
	if len(out) == 0 {
		return out
	}
	r := sim.NewRand(uint64(seed) + 1)
	n := 1 + r.Intn(3)
	for i := 0; i < n; i++ {
		out[r.Intn(len(out))] ^= byte(1 << uint(r.Intn(8)))
	}
	return out
}

// bugCase runs one (mutation, position, situation, entry) case. Returns violations and a note.
func (e *Engine) bugCase(p *sim.Plan, st *sim.Step, res *sim.RunResult, keep bool) ([]sim.Violation, string) {
	m := findMutation(st.K)
	if m == nil {
		return nil, "skipped"
	}
	valid := baseHistory(p)
	if st.N >= len(valid.Nodes) || (m.Level == "op" && st.B >= len(valid.Nodes[st.N].Spec.Ops)) {
		return nil, "skipped"
	}
	if !m.Applies(valid, st.N, st.B) {
		return nil, "skipped"
	}
	cw, err := newCaseWorld(p, st, keep)
	if err != nil {
		res.HarnessErr = "case world: " + err.Error()
		return nil, "skipped"
	}
	defer cw.close()
	valid.withAuthors(cw.authors)
	bugId := valid.bugId()
	prop := p.Property
	with := ""
	var vs []sim.Violation
	add := func(kind, format string, a ...interface{}) {
		vs = append(vs, sim.Violation{Property: prop, Kind: kind, Detail: fmt.Sprintf("mutation %s at commit %d op %d%s, victim situation %s via %s API: ", st.K, st.N, st.B, with, st.S, st.T) + fmt.Sprintf(format, a...)})
	}

	hostile := valid.clone()
	if len(st.L) == 2 {
		// the companion first: the deviation proper is then made relative to what it left
		k := findMutation(st.L[0])
		c2, _ := strconv.Atoi(st.L[1])
		if k == nil || k.Apply == nil || c2 >= len(hostile.Nodes) || c2 == st.N || m.Verdict != "reject" || !k.Applies(hostile, c2, 0) {
			return nil, "skipped"
		}
		k.Apply(hostile, c2, 0)
		if !m.Applies(hostile, st.N, st.B) {
			return nil, "skipped"
		}
		with = fmt.Sprintf(" together with %s at commit %d", st.L[0], c2)
	}
	if m.Apply != nil {
		m.Apply(hostile, st.N, st.B)
	} else { // byte flip
		blob := model.OpsBlob(hostile.Nodes[st.N].Spec.Author, hostile.Nodes[st.N].Spec.Ops)
		setBlob(hostile, st.N, flipBytes(blob, st.A))
	}
	refName := bugId
	if hostile.RefName != "" {
		refName = hostile.RefName
	} else if hid := hostile.bugId(); hid != bugId && hid != "" && m.Verdict != "reject" {
		refName = hid // a different (new) entity, published under its own id
	}

	// ---- the victim's local situation, built from the valid history
	situation := st.S
	if refName != bugId {
		situation = "absent"
	}
	// store both to learn which nodes the mutation changed
	if _, err := valid.store(cw.pub, valid.head()); err != nil {
		res.HarnessErr = "store valid: " + err.Error()
		return nil, "skipped"
	}
	hostileHead := hostile.head()
	if hostile.Recommit {
		cw.w.IdleWall = 1_700_000_777
	}
	_, herr := hostile.store(cw.adv, hostileHead)
	cw.w.IdleWall = 1_700_000_000
	if err := herr; err != nil {
		// the adversary cannot even store it (e.g. go-git refuses): not a case
		return nil, "skipped"
	}
	if situation != "absent" {
		// The victim got a valid (earlier) version from the honest remote hub0; the crafted
		// version comes from a second remote, hub1, so it need not extend anything the victim
		// has (go-git only refuses to move an EXISTING remote-tracking ref sideways).
		k := valid.head()
		if situation == "behind" || situation == "diverged" {
			k = valid.head() / 2
		}
		if m.Verdict == "accept" {
			// controls: the local prefix must consist of nodes the mutation left unchanged,
			// otherwise the same operations would sit in two different commits
			changed := map[int]bool{}
			for i := range valid.Nodes {
				if i >= len(hostile.Nodes) || valid.Nodes[i].Hash != hostile.Nodes[i].Hash {
					changed[i] = true
				}
			}
			for k >= 0 {
				ok := true
				for _, a := range valid.ancestors(k) {
					if changed[a] {
						ok = false
					}
				}
				if ok {
					break
				}
				k--
			}
		}
		if k < 0 {
			situation = "absent"
		}
		if situation != "absent" {
			if _, err := cw.publish(cw.pub, valid, k, bugId); err != nil {
				res.HarnessErr = "publish valid: " + err.Error()
				return nil, "skipped"
			}
			outs, err := cw.victimPull("hub0")
			if err != nil {
				res.HarnessErr = fmt.Sprintf("victim cannot pull the valid prefix: %v", err)
				return nil, "skipped"
			}
			okNew := false
			for _, o := range outs {
				if o.Id == bugId && o.Status == entity.MergeStatusNew {
					okNew = true
				}
				if o.Id == bugId && (o.Status == entity.MergeStatusInvalid || o.Status == entity.MergeStatusError) {
					// the encoder's valid history is refused: either the encoder or git-bug is wrong
					if prop == "C03" {
						add("good-history-refused", "the valid prefix (head commit %d of %s) was refused: %s %v", k, valid, o.Reason, o.Err)
						return vs, "prefix-refused"
					}
					res.HarnessErr = fmt.Sprintf("valid prefix refused (%s): %s %v", valid, o.Reason, o.Err)
					return nil, "skipped"
				}
			}
			if !okNew {
				res.HarnessErr = fmt.Sprintf("valid prefix not merged as new: %+v", outs)
				return nil, "skipped"
			}
			if situation == "ahead" || situation == "diverged" {
				if err := cw.victimEdit(bugId); err != nil {
					res.HarnessErr = "victim edit: " + err.Error()
					return nil, "skipped"
				}
			}
		}
	}
	cw.w.Act(nil)

	// ---- publish the hostile version and a valid bystander
	if _, err := cw.publish(cw.adv, hostile, hostileHead, refName); err != nil {
		return nil, "skipped"
	}
	bg := &gen{r: sim.NewRand(sim.Mix(p.RunSeed, 99)), wall: 1_695_000_000, authors: cw.authors}
	by := bg.genHistory(2)
	byId := by.bugId()
	if _, err := cw.publish(cw.adv, by, by.head(), byId); err != nil {
		res.HarnessErr = "publish bystander: " + err.Error()
		return nil, "skipped"
	}

	preRefs, preOps := localState(cw.victim.Raw)
	outs, pullErr := cw.victimPull("hub1")
	postRefs, postOps := localState(cw.victim.Raw)
	panics := verifrt.TakePanicsQuiesced(cw.goBase)
	for _, pr := range panics {
		add("panic", "panic in %s: %s", pr.Site, pr.Value)
	}
	if pullErr != nil && len(panics) == 0 && strings.HasPrefix(pullErr.Error(), "fetch") {
		// the transport refused the crafted ref (e.g. ref pointing to a blob): nothing reached git-bug
		res.Probes["fetch_refused"]++
		if os.Getenv("VERIF_DEBUG") != "" {
			fmt.Fprintf(os.Stderr, "fetch refused: %s c%d o%d %s: %v\n", st.K, st.N, st.B, situation, pullErr)
		}
		return vs, "fetch-refused"
	}
	var target, bystander *mergeOut
	for i := range outs {
		if outs[i].Id == refName {
			target = &outs[i]
		}
		if outs[i].Id == byId {
			bystander = &outs[i]
		}
	}
	status := "none"
	if target != nil {
		status = statusName(target.Status)
	}
	res.Probes["verdict_"+m.Verdict+"_status_"+status]++
	res.Probes["situation_"+situation]++
	localRef := "refs/bugs/" + refName
	refused := status == "invalid" || status == "error"

	// bystanders are merged whatever the hostile entity is
	if bystander == nil || bystander.Status != entity.MergeStatusNew || postRefs["refs/bugs/"+byId] == "" {
		if len(panics) == 0 {
			add("bystander-not-merged", "the valid bug %s published next to the hostile one was not merged (result %+v)", byId[:7], bystander)
		}
	}
	// other local entities are never touched
	for ref, h := range preRefs {
		if ref == localRef {
			continue
		}
		if postRefs[ref] != h {
			add("local-ref-changed", "unrelated local ref %s moved from %s to %s", ref, h, postRefs[ref])
		}
	}

	switch m.Verdict {
	case "reject":
		if !refused && len(panics) == 0 {
			kind := "hostile-accepted"
			if prop == "C03" {
				kind = "bad-history-accepted"
			}
			add(kind, "merge reported %q for a history that must be refused (%s)", status, hostile)
		}
		if preRefs[localRef] != postRefs[localRef] {
			add("local-ref-changed", "local ref %s moved from %q to %q although the remote version must be refused", localRef, preRefs[localRef], postRefs[localRef])
		}
		if preOps[localRef] != postOps[localRef] {
			add("local-entity-changed", "local bug changed from [%s] to [%s]", sim.Trunc(preOps[localRef], 120), sim.Trunc(postOps[localRef], 120))
		}
	case "accept":
		if refused || target == nil {
			if len(panics) == 0 {
				kind := "good-history-refused"
				if prop != "C03" {
					res.HarnessErr = fmt.Sprintf("control %s refused (%s): %+v", st.K, hostile, target)
					return nil, "skipped"
				}
				add(kind, "a valid history was refused: %s (%s)", reasonOf(target), hostile)
			}
		} else {
			vs = append(vs, e.checkAccepted(cw, p, st, localRef, refName, hostile, true)...)
		}
	case "either":
		if refused || target == nil {
			if preRefs[localRef] != postRefs[localRef] {
				add("local-ref-changed", "local ref %s moved although the merge reported %q (%s)", localRef, status, reasonOf(target))
			}
			if preOps[localRef] != postOps[localRef] {
				add("local-entity-changed", "local bug changed although the merge reported %q", status)
			}
		} else {
			vs = append(vs, e.checkAccepted(cw, p, st, localRef, refName, hostile, false)...)
		}
	}
	return vs, m.Verdict + "/" + status
}

func reasonOf(o *mergeOut) string {
	if o == nil {
		return "no merge result at all"
	}
	return fmt.Sprintf("%s %s %v", statusName(o.Status), o.Reason, o.Err)
}

// checkAccepted: an accepted history must leave the local entity readable and valid;
// for controls the order must be the reference order.
func (e *Engine) checkAccepted(cw *caseWorld, p *sim.Plan, st *sim.Step, localRef, refName string, h *history, control bool) []sim.Violation {
	var vs []sim.Violation
	prop := p.Property
	add := func(kind, format string, a ...interface{}) {
		vs = append(vs, sim.Violation{Property: prop, Kind: kind, Detail: fmt.Sprintf("mutation %s at commit %d op %d, victim situation %s via %s API: ", st.K, st.N, st.B, st.S, st.T) + fmt.Sprintf(format, a...)})
	}
	var b *bug.Bug
	var err error
	func() {
		defer func() {
			if r := recover(); r != nil {
				err = fmt.Errorf("PANIC: %v", r)
				add("panic", "panic while reading the accepted bug: %v", r)
			}
		}()
		o := cw.victim.Observer()
		b, err = bug.Read(o, entity.Id(refName))
		if err == nil {
			err = b.Validate()
			if err == nil && string(b.Id()) != refName {
				err = fmt.Errorf("bug stored under %s has id %s", refName[:7], b.Id())
			}
			if err == nil {
				_ = b.Compile()
			}
		}
	}()
	if err != nil {
		kind := "accepted-but-unreadable"
		if prop == "C03" {
			kind = "bad-history-accepted"
			if control {
				kind = "good-history-refused"
			}
		}
		add(kind, "the merge accepted the remote version but the local bug is now unreadable or invalid: %v", err)
		return vs
	}
	if control {
		ent, derr := model.ReadEntity(cw.victim.Raw, localRef)
		if derr == nil && ent.CheckStructure() == nil {
			want := ent.OrderedOpIds()
			var got []string
			for _, op := range b.Operations() {
				got = append(got, string(op.Id()))
			}
			if strings.Join(got, ",") != strings.Join(want, ",") && prop == "C03" {
				add("order-not-(edit,packid)", "accepted history read as %v, reference order %v", short(got), short(want))
			}
		}
	}
	// cache victims must still serve the bug
	if cw.victim.Cache != nil {
		func() {
			defer func() {
				if r := recover(); r != nil {
					add("panic", "panic resolving the merged bug through the cache: %v", r)
				}
			}()
			cw.w.Act(cw.victim)
			if _, err := cw.victim.Cache.Bugs().Resolve(entity.Id(refName)); err != nil {
				add("accepted-but-unreadable", "the cache cannot resolve the merged bug: %v", err)
			}
		}()
	}
	return vs
}

func short(ids []string) []string {
	out := make([]string, len(ids))
	for i, s := range ids {
		if len(s) > 7 {
			s = s[:7]
		}
		out[i] = s
	}
	return out
}

// localCase: corrupt data already stored locally is reported as an error when read, not as a crash.
func (e *Engine) localCase(p *sim.Plan, st *sim.Step, res *sim.RunResult, keep bool) ([]sim.Violation, string) {
	m := findMutation(st.K)
	if m == nil || m.Apply == nil {
		return nil, "skipped"
	}
	valid := baseHistory(p)
	if st.N >= len(valid.Nodes) || !m.Applies(valid, st.N, st.B) {
		return nil, "skipped"
	}
	cw, err := newCaseWorld(p, st, keep)
	if err != nil {
		res.HarnessErr = "case world: " + err.Error()
		return nil, "skipped"
	}
	defer cw.close()
	valid.withAuthors(cw.authors)
	// the victim knows the authors
	if _, err := cw.victimPull("hub0"); err != nil {
		res.HarnessErr = "victim pull: " + err.Error()
		return nil, "skipped"
	}
	cw.w.Act(nil)
	bugId := valid.bugId()
	hostile := valid.clone()
	m.Apply(hostile, st.N, st.B)
	// written straight under the local ref through the raw handle: disk corruption
	head, err := hostile.store(cw.victim.Raw, hostile.head())
	if err != nil {
		return nil, "skipped"
	}
	// under its own content id when it has one (otherwise the ref/id check alone catches it)
	if hid := hostile.bugId(); hid != "" && st.Id%2 == 0 {
		bugId = hid
	}
	if err := cw.victim.Raw.UpdateRef("refs/bugs/"+bugId, head); err != nil {
		return nil, "skipped"
	}
	var vs []sim.Violation
	add := func(format string, a ...interface{}) {
		vs = append(vs, sim.Violation{Property: p.Property, Kind: "local-corruption-crash", Detail: fmt.Sprintf("corrupt local data (%s at commit %d): ", st.K, st.N) + fmt.Sprintf(format, a...)})
	}
	try := func(what string, f func() error) {
		defer func() {
			if r := recover(); r != nil {
				add("%s panics: %v", what, r)
			}
		}()
		err := f()
		res.Probes[fmt.Sprintf("local_%s_err_%v", what, err != nil)]++
	}
	cw.w.Act(cw.victim)
	try("bug.Read", func() error {
		o := cw.victim.Observer()
		b, err := bug.Read(o, entity.Id(bugId))
		if err == nil {
			_ = b.Validate()
			_ = b.Compile()
		}
		return err
	})
	try("bug.ReadAll", func() error {
		o := cw.victim.Observer()
		var first error
		for se := range bug.ReadAll(o) {
			if se.Err != nil && first == nil {
				first = se.Err
			}
		}
		return first
	})
	try("cache rebuild", func() error {
		// a cache rebuilt over the corrupt data: open must fail or succeed, not crash
		if cw.victim.Cache != nil {
			_ = cw.victim.CloseClean()
		} else {
			_ = cw.victim.CloseClean()
		}
		_ = os.RemoveAll(filepath.Join(cw.victim.Dir, ".git", "git-bug", "cache"))
		cw.victim.Level = "cache"
		err := cw.victim.Open()
		if err == nil {
			c := cw.victim.Cache
			_, _ = c.Bugs().Resolve(entity.Id(bugId))
			_, _ = c.Bugs().Query(nil)
		}
		return err
	})
	for _, pr := range verifrt.TakePanicsQuiesced(cw.goBase) {
		add("panic in %s: %s", pr.Site, pr.Value)
	}
	return vs, "local"
}

var _ = cache.NewRepoCache
