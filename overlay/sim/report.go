package sim

import (
	"encoding/json"
	"fmt"
	"os"
	"regexp"
	"sort"
	"strings"
)

// Step is one abstract step of a plan. Entities are addressed by ordinal (modulo the
// current population) so a plan stays executable when steps are deleted.
type Step struct {
	Id  int      `json:"id"`            // stable id: selects the nonce sub-stream
	Op  string   `json:"op"`            // step kind
	R   int      `json:"r"`             // acting replica
	H   int      `json:"h,omitempty"`   // hub / remote ordinal
	B   int      `json:"b,omitempty"`   // entity ordinal
	A   int      `json:"a,omitempty"`   // author ordinal
	N   int      `json:"n,omitempty"`   // generic number
	D   int64    `json:"d,omitempty"`   // seconds the acting replica's wall clock advances first
	K   string   `json:"k,omitempty"`   // sub-kind
	S   string   `json:"s,omitempty"`   // text
	T   string   `json:"t,omitempty"`   // second text
	L   []string `json:"l,omitempty"`   // list
	M   []string `json:"m,omitempty"`   // second list
	F   string   `json:"f,omitempty"`   // fault armed for this step
	Sub []Step   `json:"sub,omitempty"` // nested operations (one staging area)
}

type Plan struct {
	Property string                 `json:"property"`
	Engine   string                 `json:"engine"`
	Tier     string                 `json:"tier"`
	Seed     uint64                 `json:"seed"`
	Run      int                    `json:"run"`
	RunSeed  uint64                 `json:"run_seed"`
	Cfg      map[string]interface{} `json:"cfg"`
	Steps    []Step                 `json:"steps"`
}

func (p *Plan) Clone() *Plan {
	b, _ := json.Marshal(p)
	var q Plan
	_ = json.Unmarshal(b, &q)
	return &q
}

func (p *Plan) CfgInt(k string, def int) int {
	if v, ok := p.Cfg[k]; ok {
		switch t := v.(type) {
		case float64:
			return int(t)
		case int:
			return t
		}
	}
	return def
}

func (p *Plan) CfgStr(k string, def string) string {
	if v, ok := p.Cfg[k]; ok {
		if s, ok := v.(string); ok {
			return s
		}
	}
	return def
}

func (p *Plan) CfgBool(k string) bool {
	if v, ok := p.Cfg[k]; ok {
		if b, ok := v.(bool); ok {
			return b
		}
	}
	return false
}

type Violation struct {
	Property string `json:"property"`
	Kind     string `json:"kind"`
	Detail   string `json:"detail"`
	Step     int    `json:"step"`
	// Pin holds engine-specific values (crash index, torn variant, schedule) merged
	// into Plan.Cfg so that the replay re-executes exactly this case.
	Pin map[string]interface{} `json:"pin,omitempty"`
}

func (v Violation) String() string {
	return fmt.Sprintf("%s/%s at step %d: %s", v.Property, v.Kind, v.Step, v.Detail)
}

type RunResult struct {
	Violations []Violation    `json:"violations,omitempty"`
	LogHash    string         `json:"log_hash"`
	NTKey      string         `json:"nt_key,omitempty"` // non-empty = run is non-trivial by the property's rule
	Faults     map[string]int `json:"faults,omitempty"`
	Probes     map[string]int `json:"probes,omitempty"`
	Steps      int            `json:"steps"`
	StepsOK    int            `json:"steps_ok"`
	Cases      int            `json:"cases"` // evaluations inside the run (enumerating engines)
	SimSeconds int64          `json:"sim_seconds"`
	Lamport    uint64         `json:"lamport"`
	HarnessErr string         `json:"harness_err,omitempty"`
	Trace      []string       `json:"trace,omitempty"`
}

// PropInfo is the static description an engine gives for a property.
type PropInfo struct {
	Level       string   // exploration | fault_enumeration
	Rule        string   // how cases are generated and what counts as distinct non-trivial
	Assumptions []string
	Real        []string
	Stub        []string
	Kinds       []string // oracle kinds
}

type Engine interface {
	Name() string
	Describe(prop string) PropInfo
	// Generate builds the plan of run number `run` of property `prop` from the seed.
	Generate(prop, tier string, seed uint64, run int) *Plan
	// Execute runs a plan in a fresh world. It must be a pure function of the plan.
	Execute(p *Plan, keepLog bool) *RunResult
	// Simplify proposes simpler variants of a step (may return nil).
	Simplify(s Step) []Step
}

var Engines = map[string]Engine{}

// PropEngines maps a property to the engines that decide it (run split among them).
var PropEngines = map[string][]string{}

func Register(e Engine, props ...string) {
	Engines[e.Name()] = e
	for _, p := range props {
		PropEngines[p] = append(PropEngines[p], e.Name())
	}
}

// ---- known findings ---------------------------------------------------------------

type Finding struct {
	Property string `json:"property"`
	Kind     string `json:"kind"`
	Match    string `json:"match"` // regexp over the violation detail
	Status   string `json:"status"` // known | fixed
	Commit   string `json:"commit,omitempty"`
	Text     string `json:"text"`
	re       *regexp.Regexp
}

func LoadFindings(path string) ([]*Finding, error) {
	b, err := os.ReadFile(path)
	if err != nil {
		if os.IsNotExist(err) {
			return nil, nil
		}
		return nil, err
	}
	var doc struct {
		Findings []*Finding `json:"findings"`
	}
	if err := json.Unmarshal(b, &doc); err != nil {
		return nil, err
	}
	for _, f := range doc.Findings {
		re, err := regexp.Compile(f.Match)
		if err != nil {
			return nil, fmt.Errorf("finding %s/%s: %w", f.Property, f.Kind, err)
		}
		f.re = re
	}
	return doc.Findings, nil
}

// MatchKnown returns the known (not fixed) finding a violation corresponds to.
func MatchKnown(fs []*Finding, v Violation) *Finding {
	for _, f := range fs {
		if f.Status != "known" {
			continue
		}
		if f.Property == v.Property && f.Kind == v.Kind && f.re.MatchString(v.Detail) {
			return f
		}
	}
	return nil
}

// ---- shard report -------------------------------------------------------------------

type ViolRun struct {
	Plan      *Plan     `json:"plan"`
	Violation Violation `json:"violation"`
}

type ShardReport struct {
	Shard      int            `json:"shard"`
	Runs       int            `json:"runs"`
	Cases      int            `json:"cases"`
	Steps      int            `json:"steps"`
	StepsOK    int            `json:"steps_ok"`
	NTHashes   []string       `json:"nt_hashes"`
	AllHashes  int            `json:"all_hashes"`
	Faults     map[string]int `json:"faults"`
	Probes     map[string]int `json:"probes"`
	SimSeconds int64          `json:"sim_seconds"`
	Lamport    uint64         `json:"lamport"`
	Viols      []ViolRun      `json:"viols"`
	ViolCount  map[string]int `json:"viol_count"`
	KnownHit   map[string]int `json:"known_hit"`
	Samples    []*Plan        `json:"samples"`
	Harness    []string       `json:"harness"`
	WallS      float64        `json:"wall_s"`
	RunHashes  map[string]string `json:"run_hashes,omitempty"` // run -> log hash (determinism test)
}

func mergeCounts(dst, src map[string]int) {
	for k, v := range src {
		dst[k] += v
	}
}

func sortedCountKeys(m map[string]int) []string {
	ks := make([]string, 0, len(m))
	for k := range m {
		ks = append(ks, k)
	}
	sort.Strings(ks)
	return ks
}

func trunc(s string, n int) string {
	s = strings.ReplaceAll(s, "\n", "\\n")
	if len(s) > n {
		return s[:n] + "…"
	}
	return s
}

// Trunc shortens a string for reports.
func Trunc(s string, n int) string { return trunc(s, n) }
