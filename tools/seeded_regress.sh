#!/bin/bash
# tools/seeded_regress.sh [budget_s] [name-glob] : every kept seeded change against the check of its property, one
# after the other, each applied to a private clone of /repo's HEAD (so /repo's working tree is never touched and
# other work can go on beside it). One line per change.
B=${1:-35}; G=${2:-*}
cd /verif
SNAP=$(mktemp -d /dev/shm/regress-repo.XXXXXX)
git clone -q /repo $SNAP || exit 2
EV=$(mktemp -d /dev/shm/regress-ev.XXXXXX)
for d in seeded/$G/; do
  n=$(basename $d)
  prop=$(python3 -c "import json; m=json.load(open('$d/meta.json')); print(m.get('regress_property', m['property']))")
  git -C $SNAP checkout -q -- . ; git -C $SNAP clean -qfd
  if ! git -C $SNAP apply /verif/$d/patch.diff; then echo "$n prop=$prop rc=patch-does-not-apply"; continue; fi
  BIN=/verif/bin/verifsim.regress.$$
  if ! VERIF_REPO=$SNAP ./build.sh $BIN >/dev/null 2>$EV/build.log; then echo "$n prop=$prop rc=build-failed"; continue; fi
  out=$(VERIF_EVIDENCE_DIR=$EV VERIF_BUDGET_S=$B $BIN drive $prop --tier quick 2>&1); rc=$?
  kinds=$(echo "$out" | grep -a '^  kind=' | sed 's/^  kind=\([a-z0-9()-]*\).*/\1/' | sort -u | tr '\n' ' ')
  echo "$n prop=$prop rc=$rc kinds=[$kinds]"
  rm -f $BIN $BIN.stats.json
done
rm -rf $SNAP $EV
