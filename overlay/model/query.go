package model

import (
	"sort"
	"strings"
	"unicode"
)

// Q is a structured query of the documented language (doc/queries.md).
type Q struct {
	Status      []string // "open" | "closed"
	Author      []string
	Actor       []string
	Participant []string
	Label       []string
	Title       []string
	Metadata    [][2]string
	NoLabel     bool
	Search      []string
	OrderBy     string // "id" | "creation" | "edit"
	Desc        bool
	SortGiven   bool // render an explicit sort qualifier
}

func quoteIfNeeded(s string) string {
	if s == "" || strings.ContainsFunc(s, unicode.IsSpace) || strings.Contains(s, ":") {
		return `"` + s + `"`
	}
	return s
}

// Render writes the query through the documented grammar.
func (q Q) Render() string {
	var parts []string
	for _, s := range q.Status {
		parts = append(parts, "status:"+s)
	}
	for _, s := range q.Author {
		parts = append(parts, "author:"+quoteIfNeeded(s))
	}
	for _, s := range q.Actor {
		parts = append(parts, "actor:"+quoteIfNeeded(s))
	}
	for _, s := range q.Participant {
		parts = append(parts, "participant:"+quoteIfNeeded(s))
	}
	for _, s := range q.Label {
		parts = append(parts, "label:"+quoteIfNeeded(s))
	}
	for _, s := range q.Title {
		parts = append(parts, "title:"+quoteIfNeeded(s))
	}
	for _, kv := range q.Metadata {
		parts = append(parts, "metadata:"+quoteIfNeeded(kv[0])+":"+quoteIfNeeded(kv[1]))
	}
	if q.NoLabel {
		parts = append(parts, "no:label")
	}
	for _, s := range q.Search {
		parts = append(parts, quoteIfNeeded(s))
	}
	if q.SortGiven {
		s := "sort:" + q.OrderBy
		if q.Desc {
			s += "-desc"
		} else {
			s += "-asc"
		}
		parts = append(parts, s)
	}
	return strings.Join(parts, " ")
}

// Person is what the evaluator knows about an identity.
type Person struct {
	Id, Name, Login string
}

// BugView is the state of one bug the evaluator works on.
type BugView struct {
	Snap          *Snap
	CreateLamport uint64
	EditLamport   uint64
	CreateMeta    map[string]string // effective metadata of the create operation
}

func personMatches(p Person, q string) bool {
	q = strings.ToLower(q)
	return strings.HasPrefix(p.Id, q) || strings.Contains(strings.ToLower(p.Name), q) || strings.Contains(strings.ToLower(p.Login), q)
}

func words(s string) map[string]bool {
	out := map[string]bool{}
	for _, w := range strings.FieldsFunc(strings.ToLower(s), func(r rune) bool { return !unicode.IsLetter(r) && !unicode.IsDigit(r) }) {
		out[w] = true
	}
	return out
}

// Matches applies the documented semantics: any-of within status / author / actor /
// participant / metadata, all-of for label / title / no:label and across kinds; a search
// term (single token) matches when it occurs as a word in the title or a comment.
func (q Q) Matches(b *BugView, people map[string]Person) bool {
	s := b.Snap
	anyOf := func(vals []string, f func(string) bool) bool {
		if len(vals) == 0 {
			return true
		}
		for _, v := range vals {
			if f(v) {
				return true
			}
		}
		return false
	}
	if !anyOf(q.Status, func(v string) bool { return (v == "open" && s.Status == 1) || (v == "closed" && s.Status == 2) }) {
		return false
	}
	if !anyOf(q.Author, func(v string) bool { return personMatches(people[s.Author], v) }) {
		return false
	}
	if !anyOf(q.Actor, func(v string) bool {
		for _, a := range s.Actors {
			if personMatches(people[a], v) {
				return true
			}
		}
		return false
	}) {
		return false
	}
	if !anyOf(q.Participant, func(v string) bool {
		for _, a := range s.Participants {
			if personMatches(people[a], v) {
				return true
			}
		}
		return false
	}) {
		return false
	}
	if len(q.Metadata) > 0 {
		ok := false
		for _, kv := range q.Metadata {
			if v, has := b.CreateMeta[kv[0]]; has && v == kv[1] {
				ok = true
			}
		}
		if !ok {
			return false
		}
	}
	for _, l := range q.Label {
		found := false
		for _, have := range s.Labels {
			if have == l {
				found = true
			}
		}
		if !found {
			return false
		}
	}
	for _, t := range q.Title {
		if !strings.Contains(strings.ToLower(s.Title), strings.ToLower(t)) {
			return false
		}
	}
	if q.NoLabel && len(s.Labels) > 0 {
		return false
	}
	if len(q.Search) == 1 {
		w := words(s.Title)
		for _, c := range s.Comments {
			for k := range words(c.Message) {
				w[k] = true
			}
		}
		if !w[strings.ToLower(q.Search[0])] {
			return false
		}
	}
	return true
}

// SortKey returns the primary (logical) key of a bug for the requested order.
func (q Q) SortKey(b *BugView) (uint64, string) {
	switch q.OrderBy {
	case "id":
		return 0, b.Snap.Id
	case "edit":
		return b.EditLamport, ""
	default:
		return b.CreateLamport, ""
	}
}

// Eval returns the matching ids (sorted, as a set) for the query.
func (q Q) Eval(bugs []*BugView, people map[string]Person) []string {
	var out []string
	for _, b := range bugs {
		if q.Matches(b, people) {
			out = append(out, b.Snap.Id)
		}
	}
	sort.Strings(out)
	return out
}

// CheckSorted verifies that result follows the requested primary key and direction.
// Bugs with equal primary keys may come in any order. Returns "" when fine.
func (q Q) CheckSorted(result []string, byId map[string]*BugView) string {
	for i := 1; i < len(result); i++ {
		a, b := byId[result[i-1]], byId[result[i]]
		if a == nil || b == nil {
			continue
		}
		ka, sa := q.SortKey(a)
		kb, sb := q.SortKey(b)
		var less, greater bool
		if q.OrderBy == "id" {
			less, greater = sa < sb, sa > sb
		} else {
			less, greater = ka < kb, ka > kb
		}
		if q.Desc && less {
			return "descending order broken between " + result[i-1][:7] + " and " + result[i][:7]
		}
		if !q.Desc && greater {
			return "ascending order broken between " + result[i-1][:7] + " and " + result[i][:7]
		}
	}
	return ""
}
