package schedsim

import (
	"fmt"
	"sort"
	"strings"
	"time"

	"github.com/MichaelMure/git-bug/cache"
	"github.com/MichaelMure/git-bug/entities/bug"
	"github.com/MichaelMure/git-bug/entity"
	"github.com/MichaelMure/git-bug/query"
	"github.com/MichaelMure/git-bug/zzverif/model"
	"github.com/MichaelMure/git-bug/zzverif/porcupine"
	"github.com/MichaelMure/git-bug/zzverif/sim"
	"github.com/MichaelMure/git-bug/zzverif/verifrt"
)

type Engine struct{}

func (e *Engine) Name() string { return "schedsim" }

func init() { sim.Register(&Engine{}, "C18") }

func (e *Engine) Describe(prop string) sim.PropInfo {
	return sim.PropInfo{Level: "exploration",
		Rule: "2-8 workers (up to 16 in the thorough tier) with generated scripts over {new bug, resolve by id/prefix, add comment, set title, open/close, change labels, set metadata, commit, commit-as-needed, snapshot, query, all ids, valid labels, excerpt look-up} on 1-3 shared bugs and private ones, cache sizes from 'everything fits' to 'forces eviction'; real goroutines parked at every instrumented lock acquisition, I/O point and call boundary, next runner drawn from the PRNG among workers whose wanted lock probes free; non-trivial = at least two workers touched the same bug; distinct = distinct schedule (sequence of decisions) hash",
		Kinds: []string{"deadlock", "panic", "acknowledged-op-missing", "op-stored-twice", "chain-invalid", "not-linearizable", "cache-differs-from-rebuild"},
		Real:  []string{"cache (RepoCache, sub-caches, BugCache, withSnapshot)", "entity/dag", "entities/bug", "entities/identity", "repository.GoGitRepo on tmpfs", "util/lamport persisted clocks", "bleve index", "query parser"},
		Stub:  []string{"Go's goroutine scheduler: replaced by a cooperative scheduler at instrumented lock/I-O/call sites (R-lock, R-io)", "wall clock, crypto/rand.Reader, keyring"},
		Assumptions: []string{
			"interleavings are explored at lock-acquisition, I/O and call granularity; unsynchronised accesses between two yield points are not interleaved, and data races as such are not detected",
			"a worker parked in front of Lock() on a read-held sync.RWMutex counts as a pending writer and blocks new readers, as sync.RWMutex does",
			"the workload contains no call that spawns goroutines of its own (pull, merge, cache build)",
			"porcupine answers Unknown (time-out) are inconclusive and never reported",
		}}
}

func (e *Engine) Simplify(s sim.Step) []sim.Step { return nil }

// A plan: Steps are the workers' script entries (R = worker index), executed per worker in order.
func (e *Engine) Generate(prop, tier string, seed uint64, run int) *sim.Plan {
	rs := sim.Mix(seed, uint64(run)+0x5CED)
	r := sim.NewRand(rs)
	p := &sim.Plan{Property: prop, Engine: "schedsim", Tier: tier, Seed: seed, Run: run, RunSeed: rs, Cfg: map[string]interface{}{}}
	nw := r.Range(2, 8)
	if tier == "thorough" && r.Chance(0.3) {
		nw = r.Range(8, 16)
	}
	p.Cfg["workers"] = nw
	p.Cfg["shared"] = r.Range(1, 3)
	cs := 1000
	if r.Chance(0.25) {
		cs = r.Range(0, 2) // forces eviction
	}
	p.Cfg["cache_size"] = cs
	// a freshly opened cache holds no loaded entity: the first requests load them concurrently
	p.Cfg["reopen"] = r.Chance(0.5)
	id := 0
	for w := 0; w < nw; w++ {
		n := r.Range(2, 7)
		for i := 0; i < n; i++ {
			id++
			st := sim.Step{Id: id, R: w, B: r.Intn(8), N: r.Intn(16)}
			ops := []string{"comment", "comment", "title", "status", "label", "meta", "commit", "commit", "commit-as-needed", "snapshot", "snapshot", "new", "query", "allids", "labels", "excerpt", "resolve-prefix", "query-nil", "excerpt-prefix", "excerpt-prefix", "ident-lookups", "create-metadata", "resolve-comment"}
			st.Op = ops[r.Intn(len(ops))]
			st.S = fmt.Sprintf("w%d-%d", w, i)
			if r.Chance(0.7) {
				st.K = "shared"
			}
			p.Steps = append(p.Steps, st)
		}
	}
	return p
}

// histOp is one recorded call on a bug for the linearizability check.
type histOp struct {
	Client int
	Bug    string
	Kind   string // "append" | "read"
	OpId   string   // append: id of the appended operation ("" if the call failed)
	Seen   []string // read: operation ids observed
	Call   uint64
	Ret    uint64
	Ok     bool
	Err    string
}

func (e *Engine) Execute(p *sim.Plan, keepLog bool) (res *sim.RunResult) {
	res = &sim.RunResult{Faults: map[string]int{}, Probes: map[string]int{}}
	w := sim.NewWorld(p.RunSeed, keepLog)
	defer w.Close()
	defer func() {
		if r := recover(); r != nil {
			res.HarnessErr = fmt.Sprintf("harness panic: %v", r)
		}
	}()
	viol := map[string]bool{}
	add := func(kind, format string, a ...interface{}) {
		if viol[kind] {
			return
		}
		viol[kind] = true
		d := fmt.Sprintf(format, a...)
		if !strings.HasPrefix(d, "cache size") {
			d = fmt.Sprintf("cache size %d: ", p.CfgInt("cache_size", 1000)) + d
		}
		res.Violations = append(res.Violations, sim.Violation{Property: p.Property, Kind: kind, Detail: d})
	}
	rep := w.AddReplica("node", "cache", 1_700_000_000)
	w.Act(rep)
	sim.SetRandStep(1)
	if err := rep.Init(); err != nil {
		res.HarnessErr = err.Error()
		return res
	}
	c := rep.Cache
	user, err := c.Identities().New("web user", "web@example.org")
	if err != nil {
		res.HarnessErr = err.Error()
		return res
	}
	if err := c.SetUserIdentity(user); err != nil {
		res.HarnessErr = err.Error()
		return res
	}
	// shared bugs exist before the workers start
	var shared []string
	setupOps := map[string][]string{}
	for i := 0; i < p.CfgInt("shared", 1); i++ {
		sim.SetRandStep(uint64(10 + i))
		b, op, err := c.Bugs().NewRaw(user, rep.Wall, fmt.Sprintf("shared bug %d", i), "body", nil, nil)
		if err != nil {
			res.HarnessErr = err.Error()
			return res
		}
		shared = append(shared, string(b.Id()))
		setupOps[string(b.Id())] = []string{string(op.Id())}
	}
	if p.CfgBool("reopen") {
		if err := rep.CloseClean(); err != nil {
			res.HarnessErr = "close: " + err.Error()
			return res
		}
		if err := rep.Open(); err != nil {
			res.HarnessErr = "reopen: " + err.Error()
			return res
		}
		c = rep.Cache
		res.Probes["reopened_before_workers"]++
		u2, err := c.GetUserIdentity()
		if err != nil {
			res.HarnessErr = "user identity after reopen: " + err.Error()
			return res
		}
		user = u2
	}
	c.Bugs().SetCacheSize(p.CfgInt("cache_size", 1000))

	nw := p.CfgInt("workers", 2)
	sched := newScheduler(sim.NewRand(sim.Mix(p.RunSeed, 7)), nw)
	if f, ok := p.Cfg["schedule"].([]interface{}); ok {
		for _, x := range f {
			if n, ok := x.(float64); ok {
				sched.Forced = append(sched.Forced, int(n))
			}
		}
	}
	scripts := make([][]sim.Step, nw)
	for _, st := range p.Steps {
		if st.R < nw {
			scripts[st.R] = append(scripts[st.R], st)
		}
	}
	var hist []histOp
	touched := map[string]map[int]bool{}
	own := make([][]string, nw)
	acked := map[string]string{} // op id -> bug id
	created := map[string]int{}  // bug id -> creating worker

	record := func(h histOp) { hist = append(hist, h) }
	touch := func(bugId string, wid int) {
		if touched[bugId] == nil {
			touched[bugId] = map[int]bool{}
		}
		touched[bugId][wid] = true
	}

	bodies := make([]func(), nw)
	for wi := 0; wi < nw; wi++ {
		wi := wi
		bodies[wi] = func() {
			for _, st := range scripts[wi] {
				verifrt.Yield("call", st.Op)
				sim.SetRandStep(uint64(1000 + st.Id))
				pickBug := func() string {
					pool := shared
					if st.K != "shared" && len(own[wi]) > 0 {
						pool = own[wi]
					}
					return pool[st.B%len(pool)]
				}
				switch st.Op {
				case "new":
					b, op, err := c.Bugs().NewRaw(user, rep.Wall, "bug by "+st.S, "body "+st.S, nil, nil)
					if err == nil {
						id := string(b.Id())
						own[wi] = append(own[wi], id)
						created[id] = wi
						acked[string(op.Id())] = id
						setupOps[id] = []string{string(op.Id())}
					} else {
						res.Probes["call_error_new"]++
					}
				case "comment", "title", "status", "label", "meta":
					id := pickBug()
					touch(id, wi)
					call := sched.tick()
					b, err := c.Bugs().Resolve(entity.Id(id))
					var opId string
					if err == nil {
						switch st.Op {
						case "comment":
							var op *bug.AddCommentOperation
							_, op, err = b.AddCommentRaw(user, rep.Wall, "comment "+st.S, nil, nil)
							if err == nil {
								opId = string(op.Id())
							}
						case "title":
							var op *bug.SetTitleOperation
							op, err = b.SetTitleRaw(user, rep.Wall, "title "+st.S, nil)
							if err == nil {
								opId = string(op.Id())
							}
						case "status":
							var op *bug.SetStatusOperation
							if st.N%2 == 0 {
								op, err = b.CloseRaw(user, rep.Wall, nil)
							} else {
								op, err = b.OpenRaw(user, rep.Wall, nil)
							}
							if err == nil {
								opId = string(op.Id())
							}
						case "label":
							var op *bug.LabelChangeOperation
							op, err = b.ForceChangeLabelsRaw(user, rep.Wall, []string{"l" + st.S}, nil, nil)
							if err == nil {
								opId = string(op.Id())
							}
						case "meta":
							first := b.FirstOp().Id()
							op, e2 := b.SetMetadataRaw(user, rep.Wall, first, map[string]string{"k" + st.S: "v"})
							err = e2
							if err == nil {
								opId = string(op.Id())
							}
						}
					}
					ret := sched.tick()
					if err != nil {
						res.Probes["call_error_"+st.Op]++
					}
					if opId != "" {
						acked[opId] = id
					}
					record(histOp{Client: wi, Bug: id, Kind: "append", OpId: opId, Call: call, Ret: ret, Ok: err == nil, Err: fmt.Sprint(err)})
				case "commit", "commit-as-needed":
					id := pickBug()
					touch(id, wi)
					b, err := c.Bugs().Resolve(entity.Id(id))
					if err == nil {
						if st.Op == "commit" {
							err = b.Commit()
						} else {
							err = b.CommitAsNeeded()
						}
					}
					if err != nil {
						res.Probes["call_error_"+st.Op]++
					}
				case "snapshot":
					id := pickBug()
					touch(id, wi)
					call := sched.tick()
					b, err := c.Bugs().Resolve(entity.Id(id))
					var seen []string
					if err == nil {
						for _, op := range b.Snapshot().Operations {
							seen = append(seen, string(op.Id()))
						}
					}
					ret := sched.tick()
					if err == nil {
						record(histOp{Client: wi, Bug: id, Kind: "read", Seen: seen, Call: call, Ret: ret, Ok: true})
					}
				case "query":
					q, err := query.Parse("status:open sort:creation")
					if err == nil {
						_, _ = c.Bugs().Query(q)
					}
				case "query-nil":
					_, _ = c.Bugs().Query(nil)
				case "allids":
					_ = c.Bugs().AllIds()
				case "labels":
					_ = c.Bugs().ValidLabels()
				case "excerpt":
					_, _ = c.Bugs().ResolveExcerpt(entity.Id(pickBug()))
				case "resolve-prefix":
					id := pickBug()
					_, _ = c.Bugs().ResolvePrefix(id[:10])
				case "excerpt-prefix":
					// what the web UI does for bug(prefix: …)
					id := pickBug()
					_, _ = c.Bugs().ResolveExcerptPrefix(id[:10])
				case "ident-lookups":
					for _, iid := range c.Identities().AllIds() {
						_, _ = c.Identities().ResolveExcerptPrefix(string(iid)[:10])
						_, _ = c.Identities().Resolve(iid)
					}
				case "create-metadata":
					_, _ = c.Bugs().ResolveBugCreateMetadata("origin", "nowhere")
				case "resolve-comment":
					id := pickBug()
					if ex, err := c.Bugs().ResolveExcerpt(entity.Id(id)); err == nil {
						_, _, _ = c.Bugs().ResolveComment(string(ex.Id())[:10])
					}
				}
			}
		}
	}

	sched.install()
	sched.run(bodies)
	sched.uninstall()
	res.Steps = len(sched.Decisions)
	res.StepsOK = res.Steps
	res.Probes["scheduling_decisions"] = len(sched.Decisions)
	for site, n := range sched.lockSites {
		_ = site
		res.Probes["lock_acquisitions_scheduled"] += n
	}
	res.Probes["distinct_lock_sites"] = len(sched.lockSites)
	if p.CfgInt("cache_size", 1000) < 10 {
		res.Probes["small_cache_runs"]++
	}
	pin := map[string]interface{}{"schedule": sched.Decisions}
	dec := make([]string, len(sched.Decisions))
	for i, d := range sched.Decisions {
		dec[i] = fmt.Sprint(d)
	}
	res.LogHash = model.Sha256Hex([]byte(strings.Join(dec, ",")))[:16]
	multi := false
	for _, ws := range touched {
		if len(ws) >= 2 {
			multi = true
		}
	}
	if multi {
		res.NTKey = "shared-bug-contention"
	}
	if keepLog {
		res.Trace = append(res.Trace, "schedule: "+strings.Join(dec, " "))
		for _, h := range hist {
			res.Trace = append(res.Trace, fmt.Sprintf("w%d %s bug=%s op=%.7s seen=%d call=%d ret=%d ok=%v %s", h.Client, h.Kind, h.Bug[:7], h.OpId, len(h.Seen), h.Call, h.Ret, h.Ok, sim.Trunc(h.Err, 120)))
		}
	}
	if sched.Stuck != "" {
		res.HarnessErr = sched.Stuck
		return res
	}
	for _, pr := range verifrt.TakePanics() {
		add("panic", "panic in %s: %s", pr.Site, pr.Value)
	}
	if sched.Deadlock != "" {
		add("deadlock", "cache size %d: %s", p.CfgInt("cache_size", 1000), sched.Deadlock)
		for i := range res.Violations {
			res.Violations[i].Pin = pin
		}
		return res // the cache is wedged: nothing more can be asked from it
	}

	// ---- after the workers: commit what is still staged, then read git
	w.Act(rep)
	ids := map[string]bool{}
	for _, id := range shared {
		ids[id] = true
	}
	for _, o := range own {
		for _, id := range o {
			ids[id] = true
		}
	}
	var idList []string
	for id := range ids {
		idList = append(idList, id)
	}
	sort.Strings(idList)
	finalErr := map[string]error{}
	// the goroutines are done: before anything else touches the cache, the excerpt every query,
	// listing and the cache file are served from must describe the live state of its bug (whatever
	// is still staged included). Resolving does not refresh an excerpt.
	for _, id := range idList {
		b, err := c.Bugs().Resolve(entity.Id(id))
		if err != nil {
			continue // judged below
		}
		ex, err := c.Bugs().ResolveExcerpt(entity.Id(id))
		if err != nil {
			continue
		}
		snap := b.Snapshot()
		if ex.Title != snap.Title || ex.Status != snap.Status || ex.LenComments != len(snap.Comments) || len(ex.Labels) != len(snap.Labels) {
			add("cache-differs-from-rebuild", "cache size %d: bug %s after the workers finished: the excerpt (title %q, status %v, %d comments, %d labels) is not the one of the bug's state (title %q, status %v, %d comments, %d labels)",
				p.CfgInt("cache_size", 1000), id[:7], ex.Title, ex.Status, ex.LenComments, len(ex.Labels), snap.Title, snap.Status, len(snap.Comments), len(snap.Labels))
		}
	}
	// the closing commits run under the scheduler too: an entity lock that is never released
	// would otherwise hang the simulator instead of being reported
	fin := newScheduler(sim.NewRand(1), 1)
	fin.install()
	fin.run([]func(){func() {
		for _, id := range idList {
			b, err := c.Bugs().Resolve(entity.Id(id))
			if err == nil && b.NeedCommit() {
				// only bugs with staged operations: CommitAsNeeded refreshes the excerpt even
				// when there is nothing to commit, which would repair a stale one behind our back
				err = b.CommitAsNeeded()
			}
			if err != nil {
				finalErr[id] = err
			}
		}
	}})
	fin.uninstall()
	if fin.Stuck != "" {
		res.HarnessErr = fin.Stuck
		return res
	}
	if fin.Deadlock != "" {
		add("deadlock", "cache size %d: %s", p.CfgInt("cache_size", 1000), strings.Replace(fin.Deadlock, "worker 0 blocked", "worker 0 (committing what is still staged after all workers finished) blocked", 1))
		for i := range res.Violations {
			res.Violations[i].Pin = pin
		}
		return res
	}
	stored := map[string][]string{}
	for _, id := range idList {
		ent, err := model.ReadEntity(rep.Raw, "refs/bugs/"+id)
		if err == nil {
			err = ent.CheckStructure()
		}
		if err != nil {
			add("chain-invalid", "bug %s: stored history is not a valid chain: %v", id[:7], err)
			continue
		}
		if _, err := bug.Read(rep.Observer(), entity.Id(id)); err != nil {
			add("chain-invalid", "bug %s is not readable after the workers finished: %v", id[:7], err)
			continue
		}
		stored[id] = ent.OrderedOpIds()
		count := map[string]int{}
		for _, o := range stored[id] {
			count[o]++
		}
		for o, n := range count {
			if n > 1 {
				add("op-stored-twice", "bug %s: operation %s is stored %d times", id[:7], o[:7], n)
			}
			if _, ok := acked[o]; !ok {
				known := false
				for _, s := range setupOps[id] {
					if s == o {
						known = true
					}
				}
				if !known {
					res.Probes["stored_but_unacknowledged"]++
				}
			}
		}
	}
	for o, id := range acked {
		if _, ok := stored[id]; !ok {
			continue
		}
		found := false
		for _, s := range stored[id] {
			if s == o {
				found = true
			}
		}
		if !found {
			add("acknowledged-op-missing", "bug %s: operation %s was acknowledged (its call returned success) but is not in the stored history %v (final commit error: %v)", id[:7], o[:7], short(stored[id]), finalErr[id])
		}
	}

	// ---- per-bug linearizability of appends and snapshot reads
	for _, id := range idList {
		var ops []porcupine.Operation
		for _, h := range hist {
			if h.Bug != id {
				continue
			}
			if h.Kind == "append" && !h.Ok {
				continue // a failed call appended nothing
			}
			ops = append(ops, porcupine.Operation{ClientId: h.Client, Input: h, Call: int64(h.Call), Output: h, Return: int64(h.Ret)})
		}
		if len(ops) == 0 || len(ops) > 40 {
			continue
		}
		init := append([]string{}, setupOps[id]...)
		m := porcupine.Model{
			Init: func() interface{} { return strings.Join(init, ",") },
			Step: func(state, input, output interface{}) (bool, interface{}) {
				st := state.(string)
				h := input.(histOp)
				if h.Kind == "append" {
					if st == "" {
						return true, h.OpId
					}
					return true, st + "," + h.OpId
				}
				return strings.Join(h.Seen, ",") == st, st
			},
			Equal: func(a, b interface{}) bool { return a.(string) == b.(string) },
		}
		r := porcupine.CheckOperationsTimeout(m, ops, 10*time.Second)
		switch r {
		case porcupine.Illegal:
			add("not-linearizable", "bug %s: the recorded appends and snapshot reads have no sequential explanation (%d calls)", id[:7], len(ops))
		case porcupine.Unknown:
			res.Probes["porcupine_unknown"]++
		default:
			res.Probes["porcupine_ok"]++
		}
	}

	// ---- the cache agrees with what git holds (and with a rebuild)
	for _, id := range idList {
		if _, bad := finalErr[id]; bad {
			continue
		}
		b, err := c.Bugs().Resolve(entity.Id(id))
		if err != nil {
			add("cache-differs-from-rebuild", "bug %s cannot be resolved through the cache after the workers finished: %v", id[:7], err)
			continue
		}
		var seen []string
		for _, op := range b.Snapshot().Operations {
			seen = append(seen, string(op.Id()))
		}
		if want, ok := stored[id]; ok && strings.Join(seen, ",") != strings.Join(want, ",") {
			add("cache-differs-from-rebuild", "bug %s: the cache serves %v, git holds %v", id[:7], short(seen), short(want))
		}
		if ex, err := c.Bugs().ResolveExcerpt(entity.Id(id)); err != nil {
			add("cache-differs-from-rebuild", "bug %s has no excerpt: %v", id[:7], err)
		} else if b2, err := bug.Read(rep.Observer(), entity.Id(id)); err == nil {
			snap := b2.Compile()
			if ex.Title != snap.Title || ex.Status != snap.Status || ex.LenComments != len(snap.Comments) {
				add("cache-differs-from-rebuild", "bug %s: excerpt (title %q, status %v, %d comments) differs from the stored state (title %q, status %v, %d comments)", id[:7], ex.Title, ex.Status, ex.LenComments, snap.Title, snap.Status, len(snap.Comments))
			}
		}
	}
	for i := range res.Violations {
		res.Violations[i].Pin = pin
	}
	return res
}

func short(ids []string) []string {
	out := make([]string, len(ids))
	for i, s := range ids {
		if len(s) > 7 {
			s = s[:7]
		}
		out[i] = s
	}
	return out
}

var _ = cache.NewRepoCache
