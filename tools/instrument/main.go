// Command instrument writes instrumented copies of git-bug source files and an
// overlay JSON for `go build -overlay`. Rewrites are purely syntactic text edits at
// positions found with go/parser (line numbers are preserved); see DESIGN.md §1.1.
package main

import (
	"encoding/json"
	"flag"
	"fmt"
	"go/ast"
	"go/parser"
	"go/token"
	"os"
	"path/filepath"
	"sort"
	"strconv"
	"strings"
)

const rtImport = "github.com/MichaelMure/git-bug/zzverif/verifrt"
const glImport = "github.com/MichaelMure/git-bug/zzverif/gitlabhook"
const fsImport = "github.com/MichaelMure/git-bug/zzverif/verifrtfs"
const envImport = "github.com/MichaelMure/git-bug/zzverif/verifenv"

// directories of /repo whose non-test files are instrumented
var roots = []string{"api", "bridge", "cache", "commands", "entities", "entity", "query", "repository", "util", "termui"}

// R-io: functions that get a scheduler yield at entry: dir -> receiver type ("" = plain func) -> names
var ioFuncs = map[string]map[string][]string{
	"util/lamport": {"PersistedClock": {"Write", "read"}},
	"repository": {
		"bleveIndex": {"IndexOne", "IndexBatch", "Search", "DocCount", "Remove", "Clear"},
		"GoGitRepo": {"StoreData", "StoreTree", "StoreSignedCommit", "UpdateRef", "RemoveRef", "CopyRef",
			"ReadData", "ReadTree", "ReadCommit", "ResolveRef", "ListRefs", "RefExist"},
	},
	"cache": {"SubCache": {"write"}},
}

type edit struct {
	off  int
	del  int
	text string
	seq  int
}

type stats struct {
	Files     int            `json:"files_rewritten"`
	Rules     map[string]int `json:"rules"`
	PerFile   map[string]map[string]int `json:"per_file"`
	LockSites []string       `json:"lock_sites"`
}

func main() {
	repo := flag.String("repo", "/repo", "repository root")
	out := flag.String("out", "", "scratch output dir")
	ovsrc := flag.String("overlaysrc", "/verif/overlay", "simulator sources mapped to <repo>/zzverif")
	modcache := flag.String("modcache", "", "GOMODCACHE, for files injected into dependencies")
	stmtYield := flag.Bool("stmt-yield", false, "insert a scheduler yield before every statement of package cache")
	porcupine := flag.String("porcupine", "", "directory of the porcupine module in the module cache (mapped as a virtual package)")
	flag.Parse()
	if *out == "" {
		fatal("need -out")
	}
	st := &stats{Rules: map[string]int{}, PerFile: map[string]map[string]int{}}
	replace := map[string]string{}

	for _, root := range roots {
		base := filepath.Join(*repo, root)
		dirs := map[string][]string{}
		_ = filepath.Walk(base, func(p string, info os.FileInfo, err error) error {
			if err != nil {
				return nil
			}
			if info.IsDir() {
				n := info.Name()
				if n == "testdata" || n == "node_modules" || strings.HasPrefix(n, ".") {
					return filepath.SkipDir
				}
				return nil
			}
			if strings.HasSuffix(p, ".go") && !strings.HasSuffix(p, "_test.go") {
				dirs[filepath.Dir(p)] = append(dirs[filepath.Dir(p)], p)
			}
			return nil
		})
		var dnames []string
		for d := range dirs {
			dnames = append(dnames, d)
		}
		sort.Strings(dnames)
		for _, d := range dnames {
			files := dirs[d]
			sort.Strings(files)
			rel, _ := filepath.Rel(*repo, d)
			processDir(*repo, rel, files, *out, replace, st, *stmtYield)
		}
	}

	// virtual packages
	_ = filepath.Walk(*ovsrc, func(p string, info os.FileInfo, err error) error {
		if err != nil || info.IsDir() {
			return nil
		}
		rel, _ := filepath.Rel(*ovsrc, p)
		if strings.HasPrefix(rel, "inject"+string(filepath.Separator)) {
			// R-inject: a file added to an existing package (test-only accessors): of the repository,
			// or - below inject/MOD/<module path>/ - of a dependency in the module cache, at the
			// version go.mod requires
			if !strings.HasSuffix(p, ".go") {
				return nil
			}
			sub := strings.TrimPrefix(rel, "inject"+string(filepath.Separator))
			if strings.HasPrefix(sub, "MOD"+string(filepath.Separator)) {
				sub = strings.TrimPrefix(sub, "MOD"+string(filepath.Separator))
				gm, _ := os.ReadFile(filepath.Join(*repo, "go.mod"))
				done := false
				for _, line := range strings.Split(string(gm), "\n") {
					f := strings.Fields(line)
					if len(f) >= 2 && strings.HasPrefix(sub, f[0]+string(filepath.Separator)) && *modcache != "" {
						replace[filepath.Join(*modcache, f[0]+"@"+f[1], strings.TrimPrefix(sub, f[0]+string(filepath.Separator)))] = p
						st.Rules["R-inject"]++
						done = true
					}
				}
				if !done {
					fatal("R-inject: no required module matches " + sub)
				}
				return nil
			}
			replace[filepath.Join(*repo, sub)] = p
			st.Rules["R-inject"]++
			return nil
		}
		if strings.HasSuffix(p, ".go") || strings.HasSuffix(p, ".json") || strings.HasSuffix(p, ".asc") || strings.HasSuffix(p, ".txt") {
			replace[filepath.Join(*repo, "zzverif", rel)] = p
		}
		return nil
	})

	if *porcupine != "" {
		for _, f := range []string{"bitset.go", "checker.go", "model.go", "porcupine.go"} {
			src := filepath.Join(*porcupine, f)
			if _, err := os.Stat(src); err != nil {
				fatal("porcupine source missing: " + src)
			}
			replace[filepath.Join(*repo, "zzverif", "porcupine", f)] = src
		}
	}

	ov, _ := json.MarshalIndent(map[string]interface{}{"Replace": replace}, "", " ")
	must(os.WriteFile(filepath.Join(*out, "overlay.json"), ov, 0o644))
	sort.Strings(st.LockSites)
	sj, _ := json.MarshalIndent(st, "", " ")
	must(os.WriteFile(filepath.Join(*out, "instrument_stats.json"), sj, 0o644))
}

func processDir(repo, rel string, files []string, out string, replace map[string]string, st *stats, stmtYield bool) {
	fset := token.NewFileSet()
	type pf struct {
		path string
		src  []byte
		f    *ast.File
	}
	var parsed []pf
	mutexes := map[string]bool{} // field / var name -> isRW
	for _, p := range files {
		src, err := os.ReadFile(p)
		if err != nil {
			fatal(err.Error())
		}
		f, err := parser.ParseFile(fset, p, src, parser.ParseComments)
		if err != nil {
			fatal("parse " + p + ": " + err.Error())
		}
		parsed = append(parsed, pf{p, src, f})
		syncName := importName(f, "sync", "sync")
		if syncName == "" {
			continue
		}
		isMutexType := func(e ast.Expr) (bool, bool) {
			se, ok := e.(*ast.SelectorExpr)
			if !ok {
				return false, false
			}
			id, ok := se.X.(*ast.Ident)
			if !ok || id.Name != syncName {
				return false, false
			}
			switch se.Sel.Name {
			case "Mutex":
				return true, false
			case "RWMutex":
				return true, true
			}
			return false, false
		}
		ast.Inspect(f, func(n ast.Node) bool {
			switch t := n.(type) {
			case *ast.StructType:
				for _, fld := range t.Fields.List {
					if ok, rw := isMutexType(fld.Type); ok {
						for _, nm := range fld.Names {
							mutexes[nm.Name] = rw
						}
					}
				}
			case *ast.GenDecl:
				if t.Tok == token.VAR {
					for _, s := range t.Specs {
						vs := s.(*ast.ValueSpec)
						if vs.Type != nil {
							if ok, rw := isMutexType(vs.Type); ok {
								for _, nm := range vs.Names {
									mutexes[nm.Name] = rw
								}
							}
						}
					}
				}
			}
			return true
		})
	}

	for _, p := range parsed {
		relFile, _ := filepath.Rel(repo, p.path)
		counts := map[string]int{}
		var edits []edit
		seq := 0
		add := func(off, del int, text string) {
			seq++
			edits = append(edits, edit{off, del, text, seq})
		}
		off := func(pos token.Pos) int { return fset.Position(pos).Offset }
		site := func(pos token.Pos) string {
			ps := fset.Position(pos)
			return relFile + ":" + strconv.Itoa(ps.Line)
		}
		timeName := importName(p.f, "time", "time")
		osName := importName(p.f, "os", "os")
		procName := importName(p.f, "github.com/MichaelMure/git-bug/util/process", "process")
		glName := importName(p.f, "github.com/xanzy/go-gitlab", "gitlab")
		osfsName := importName(p.f, "github.com/go-git/go-billy/v5/osfs", "osfs")
		needFs := false
		envName := importName(p.f, "github.com/MichaelMure/git-bug/commands/execenv", "execenv")
		needEnv := false
		usedTime, usedOs, usedProc, usedGl := false, false, false, false
		needGl := false

		isPkgSel := func(e ast.Expr, pkg, name string) bool {
			se, ok := e.(*ast.SelectorExpr)
			if !ok || pkg == "" {
				return false
			}
			id, ok := se.X.(*ast.Ident)
			return ok && id.Name == pkg && id.Obj == nil && se.Sel.Name == name
		}

		var handleList func(list []ast.Stmt)
		handleList = func(list []ast.Stmt) {
			for _, s := range list {
				es, ok := s.(*ast.ExprStmt)
				if !ok {
					continue
				}
				call, ok := es.X.(*ast.CallExpr)
				if !ok || len(call.Args) != 0 {
					continue
				}
				se, ok := call.Fun.(*ast.SelectorExpr)
				if !ok || (se.Sel.Name != "Lock" && se.Sel.Name != "RLock") {
					continue
				}
				var fieldName string
				switch x := se.X.(type) {
				case *ast.SelectorExpr:
					fieldName = x.Sel.Name
				case *ast.Ident:
					fieldName = x.Name
					if x.Obj != nil && x.Obj.Kind == ast.Var {
						// local or package var; only package-level is in mutexes
					}
				}
				if _, ok := mutexes[fieldName]; !ok {
					continue
				}
				mode := "w"
				if se.Sel.Name == "RLock" {
					mode = "r"
				}
				recv := string(p.src[off(se.X.Pos()):off(se.X.End())])
				add(off(s.Pos()), 0, fmt.Sprintf("verifrt.BeforeLock(&%s, %q, %q); ", recv, mode, site(s.Pos())))
				counts["R-lock"]++
				st.LockSites = append(st.LockSites, site(s.Pos())+" "+recv+"."+se.Sel.Name)
			}
			if stmtYield && rel == "cache" {
				for _, s := range list {
					switch s.(type) {
					case *ast.LabeledStmt, *ast.DeclStmt, *ast.EmptyStmt:
						continue
					}
					add(off(s.Pos()), 0, fmt.Sprintf("verifrt.Yield(\"stmt\", %q); ", site(s.Pos())))
					counts["R-stmt"]++
				}
			}
		}

		guardLit := func(fl *ast.FuncLit) {
			add(off(fl.Body.Lbrace)+1, 0, " defer verifrt.GoGuard("+strconv.Quote(site(fl.Pos()))+")(); ")
			counts["R-go"]++
		}

		iof := ioFuncs[rel]

		ast.Inspect(p.f, func(n ast.Node) bool {
			switch t := n.(type) {
			case *ast.BlockStmt:
				handleList(t.List)
			case *ast.CaseClause:
				handleList(t.Body)
			case *ast.CommClause:
				handleList(t.Body)
			case *ast.GoStmt:
				if fl, ok := t.Call.Fun.(*ast.FuncLit); ok {
					guardLit(fl)
				}
			case *ast.FuncDecl:
				if iof != nil && t.Body != nil {
					recv := ""
					if t.Recv != nil && len(t.Recv.List) == 1 {
						recv = recvTypeName(t.Recv.List[0].Type)
					}
					for _, nm := range iof[recv] {
						if nm == t.Name.Name {
							add(off(t.Body.Lbrace)+1, 0, fmt.Sprintf(" verifrt.Yield(\"io\", %q); ", site(t.Pos())))
							counts["R-io"]++
						}
					}
				}
			case *ast.CallExpr:
				// errgroup / ErrWaitGroup style: X.Go(func() error {...})
				if se, ok := t.Fun.(*ast.SelectorExpr); ok && se.Sel.Name == "Go" && len(t.Args) == 1 {
					if fl, ok := t.Args[0].(*ast.FuncLit); ok {
						guardLit(fl)
					}
				}
				if isPkgSel(t.Fun, timeName, "Now") && len(t.Args) == 0 {
					se := t.Fun.(*ast.SelectorExpr)
					add(off(se.Pos()), off(se.End())-off(se.Pos()), "verifrt.Now")
					counts["R-time"]++
				} else if isPkgSel(t.Fun, timeName, "NewTimer") && len(t.Args) == 1 {
					se := t.Fun.(*ast.SelectorExpr)
					add(off(se.Pos()), off(se.End())-off(se.Pos()), "verifrt.NewTimer")
					counts["R-timer"]++
				} else if isPkgSel(t.Fun, timeName, "Until") && len(t.Args) == 1 {
					se := t.Fun.(*ast.SelectorExpr)
					add(off(se.Pos()), off(se.End())-off(se.Pos()), "verifrt.Until")
					counts["R-timer"]++
				} else if isPkgSel(t.Fun, osName, "Getpid") && len(t.Args) == 0 {
					se := t.Fun.(*ast.SelectorExpr)
					add(off(se.Pos()), off(se.End())-off(se.Pos()), "verifrt.Getpid")
					counts["R-pid"]++
				} else if isPkgSel(t.Fun, procName, "IsRunning") && rel != "util/process" {
					se := t.Fun.(*ast.SelectorExpr)
					add(off(se.Pos()), off(se.End())-off(se.Pos()), "verifrt.IsRunning")
					counts["R-pid"]++
				} else if isPkgSel(t.Fun, envName, "NewEnv") && rel == "commands" && len(t.Args) == 0 {
					add(off(t.Pos()), 0, "verifenv.Track(")
					add(off(t.End()), 0, ")")
					counts["R-env"]++
					needEnv = true
				} else if isPkgSel(t.Fun, osfsName, "New") && rel == "repository" {
					se := t.Fun.(*ast.SelectorExpr)
					add(off(se.Pos()), off(se.End())-off(se.Pos()), "verifrtfs.New")
					counts["R-fs"]++
					needFs = true
				} else if isPkgSel(t.Fun, glName, "NewClient") && strings.HasPrefix(rel, "bridge/gitlab") {
					se := t.Fun.(*ast.SelectorExpr)
					add(off(se.Pos()), off(se.End())-off(se.Pos()), "gitlabhook.NewClient")
					counts["R-gitlab"]++
					needGl = true
				}
			case *ast.SelectorExpr:
				if id, ok := t.X.(*ast.Ident); ok && id.Obj == nil {
					switch id.Name {
					case timeName:
						usedTime = true
					case osName:
						usedOs = true
					case procName:
						usedProc = true
					case glName:
						usedGl = true
					}
				}
			}
			return true
		})
		_ = usedTime
		_ = usedOs
		_ = usedProc
		_ = usedGl

		if len(edits) == 0 {
			continue
		}
		// import on the package clause line: keeps line numbers
		imp := "; import verifrt " + strconv.Quote(rtImport)
		if needGl {
			imp += "; import gitlabhook " + strconv.Quote(glImport)
		}
		if needFs {
			imp += "; import verifrtfs " + strconv.Quote(fsImport)
		}
		if needEnv {
			imp += "; import verifenv " + strconv.Quote(envImport)
		}
		add(off(p.f.Name.End()), 0, imp)

		sort.SliceStable(edits, func(i, j int) bool {
			if edits[i].off != edits[j].off {
				return edits[i].off < edits[j].off
			}
			return edits[i].seq < edits[j].seq
		})
		var b strings.Builder
		cur := 0
		for _, e := range edits {
			if e.off < cur {
				fatal(fmt.Sprintf("overlapping edits in %s", p.path))
			}
			b.Write(p.src[cur:e.off])
			b.WriteString(e.text)
			cur = e.off + e.del
		}
		b.Write(p.src[cur:])
		// keep possibly-now-unused imports alive
		b.WriteString("\n")
		if timeName != "" && (counts["R-time"] > 0 || counts["R-timer"] > 0) {
			b.WriteString("var _ = " + timeName + ".Unix\n")
		}
		if osName != "" && counts["R-pid"] > 0 {
			b.WriteString("var _ = " + osName + ".Getenv\n")
		}
		if procName != "" && counts["R-pid"] > 0 && rel != "util/process" {
			b.WriteString("var _ = " + procName + ".IsRunning\n")
		}
		if glName != "" && needGl {
			b.WriteString("var _ = " + glName + ".NewClient\n")
		}
		if needFs {
			b.WriteString("var _ = " + osfsName + ".New\n")
		}
		b.WriteString("var _ = verifrt.Now\n")

		dst := filepath.Join(out, "src", relFile)
		must(os.MkdirAll(filepath.Dir(dst), 0o755))
		must(os.WriteFile(dst, []byte(b.String()), 0o644))
		replace[p.path] = dst
		st.Files++
		st.PerFile[relFile] = counts
		for k, v := range counts {
			st.Rules[k] += v
		}
	}
}

func recvTypeName(e ast.Expr) string {
	switch t := e.(type) {
	case *ast.StarExpr:
		return recvTypeName(t.X)
	case *ast.Ident:
		return t.Name
	case *ast.IndexExpr:
		return recvTypeName(t.X)
	case *ast.IndexListExpr:
		return recvTypeName(t.X)
	}
	return ""
}

func importName(f *ast.File, path, def string) string {
	for _, im := range f.Imports {
		p, _ := strconv.Unquote(im.Path.Value)
		if p == path {
			if im.Name != nil {
				if im.Name.Name == "_" || im.Name.Name == "." {
					return ""
				}
				return im.Name.Name
			}
			return def
		}
	}
	return ""
}

func must(err error) {
	if err != nil {
		fatal(err.Error())
	}
}

func fatal(s string) {
	fmt.Fprintln(os.Stderr, "instrument:", s)
	os.Exit(2)
}
