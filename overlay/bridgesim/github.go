package bridgesim

import (
	"encoding/json"
	"fmt"
	"io"
	"net/http"
	"sort"
	"strconv"
	"strings"
	"sync"

	"github.com/MichaelMure/git-bug/zzverif/sim"
)

// A GitHub tracker model and the GraphQL endpoint the importer of bridge/github talks to, served
// through http.DefaultTransport (oauth2.NewClient(context.TODO(), …) falls back to it), so the
// real githubv4 / graphql client, its JSON decoding and the importer's rate-limit and retry
// wrapper all run. Queries are recognised by their text; responses hold the fields the
// importer's query structs ask for.

type ghEdit struct {
	ID      string
	At      int64
	Editor  string // login, "" = deleted user
	Diff    string
}

type ghItem struct {
	Kind   string // IssueComment | LabeledEvent | UnlabeledEvent | ClosedEvent | ReopenedEvent | RenamedTitleEvent
	ID     string
	At     int64
	Actor  string
	Body   string // comment: text at creation
	Edits  []ghEdit
	Label  string
	Title  string // renamed: current
	Prev   string
}

type ghIssue struct {
	ID      string
	Number  int
	Title   string
	Body    string // text at creation
	Author  string
	Created int64
	Updated int64
	Edits   []ghEdit
	Items   []ghItem
	Actions int
}

type ghUser struct {
	Login, Name, Email string
	Deleted            bool
}

type ghTracker struct {
	Users   []*ghUser
	Issues  []*ghIssue
	Clock   int64
	Version int
	seq     int
}

func newGhTracker() *ghTracker {
	t := &ghTracker{Clock: 1_600_000_000}
	for i := 1; i <= 3; i++ {
		t.Users = append(t.Users, &ghUser{Login: fmt.Sprintf("octo%d", i), Name: fmt.Sprintf("Octo Cat %d", i), Email: fmt.Sprintf("octo%d@example.org", i)})
	}
	t.Users[2].Name = "" // a user without a public name
	return t
}

func (t *ghTracker) id(prefix string) string {
	t.seq++
	return fmt.Sprintf("%s_kwDO%04d", prefix, t.seq)
}

func (t *ghTracker) tick(r *sim.Rand) int64 {
	t.Clock += int64(r.Range(2, 4000))
	return t.Clock
}

func (t *ghTracker) live(r *sim.Rand) string {
	var ls []string
	for _, u := range t.Users {
		if !u.Deleted {
			ls = append(ls, u.Login)
		}
	}
	return ls[r.Intn(len(ls))]
}

func (is *ghIssue) body() string {
	if n := len(is.Edits); n > 0 {
		return is.Edits[n-1].Diff
	}
	return is.Body
}

func (it *ghItem) text() string {
	if n := len(it.Edits); n > 0 {
		return it.Edits[n-1].Diff
	}
	return it.Body
}

func (is *ghIssue) labels() []string {
	set := map[string]bool{}
	for _, it := range is.Items {
		switch it.Kind {
		case "LabeledEvent":
			set[it.Label] = true
		case "UnlabeledEvent":
			delete(set, it.Label)
		}
	}
	var out []string
	for l := range set {
		out = append(out, l)
	}
	sort.Strings(out)
	return out
}

func (is *ghIssue) closed() bool {
	c := false
	for _, it := range is.Items {
		switch it.Kind {
		case "ClosedEvent":
			c = true
		case "ReopenedEvent":
			c = false
		}
	}
	return c
}

func (t *ghTracker) Grow(r *sim.Rand, n int) {
	for k := 0; k < n; k++ {
		who := t.live(r)
		t.Version++
		if len(t.Issues) == 0 || r.Chance(0.2) {
			now := t.tick(r)
			num := len(t.Issues) + 1
			t.Issues = append(t.Issues, &ghIssue{ID: t.id("I"), Number: num, Title: fmt.Sprintf("issue %d %s", num, []string{"crash", "typo", "slow", "日本"}[r.Intn(4)]),
				Body: hostile[r.Intn(len(hostile))], Author: who, Created: now, Updated: now, Actions: 1})
			continue
		}
		is := t.Issues[r.Intn(len(t.Issues))]
		now := t.tick(r)
		is.Updated = now
		is.Actions++
		switch r.Intn(8) {
		case 0, 1:
			is.Items = append(is.Items, ghItem{Kind: "IssueComment", ID: t.id("IC"), At: now, Actor: who, Body: "comment " + hostile[r.Intn(len(hostile))]})
		case 2:
			var idx []int
			for i, it := range is.Items {
				if it.Kind == "IssueComment" {
					idx = append(idx, i)
				}
			}
			if len(idx) == 0 {
				is.Actions--
				break
			}
			it := &is.Items[idx[r.Intn(len(idx))]]
			if len(it.Edits) == 0 {
				// the first entry of the edit history stands for the creation
				it.Edits = append(it.Edits, ghEdit{ID: t.id("UCE"), At: it.At, Editor: it.Actor, Diff: it.Body})
			}
			it.Edits = append(it.Edits, ghEdit{ID: t.id("UCE"), At: now, Editor: who, Diff: "edited " + hostile[r.Intn(len(hostile))]})
		case 3:
			if len(is.Edits) == 0 {
				is.Edits = append(is.Edits, ghEdit{ID: t.id("UCE"), At: is.Created, Editor: is.Author, Diff: is.Body})
			}
			is.Edits = append(is.Edits, ghEdit{ID: t.id("UCE"), At: now, Editor: who, Diff: "new body " + hostile[r.Intn(len(hostile))]})
		case 4:
			nt := "retitled " + strconv.Itoa(r.Intn(1000))
			is.Items = append(is.Items, ghItem{Kind: "RenamedTitleEvent", ID: t.id("RTE"), At: now, Actor: who, Title: nt, Prev: is.Title})
			is.Title = nt
		case 5:
			is.Items = append(is.Items, ghItem{Kind: "LabeledEvent", ID: t.id("LE"), At: now, Actor: who, Label: []string{"bug", "ui", "needs triage", "prio: high"}[r.Intn(4)]})
		case 6:
			if cur := is.labels(); len(cur) > 0 {
				is.Items = append(is.Items, ghItem{Kind: "UnlabeledEvent", ID: t.id("UNLE"), At: now, Actor: who, Label: cur[r.Intn(len(cur))]})
			} else {
				is.Actions--
			}
		case 7:
			if is.closed() {
				is.Items = append(is.Items, ghItem{Kind: "ReopenedEvent", ID: t.id("RE"), At: now, Actor: who})
			} else {
				is.Items = append(is.Items, ghItem{Kind: "ClosedEvent", ID: t.id("CE"), At: now, Actor: who})
			}
		}
	}
}

// DeleteUser: GitHub shows the contributions of a deleted account under "ghost"; the API gives a
// null actor for them.
func (t *ghTracker) DeleteUser(ord int) bool {
	var liveIdx []int
	for i, u := range t.Users {
		if !u.Deleted {
			liveIdx = append(liveIdx, i)
		}
	}
	if len(liveIdx) < 2 {
		return false
	}
	u := t.Users[liveIdx[ord%len(liveIdx)]]
	u.Deleted = true
	t.Version++
	fix := func(s *string) {
		if *s == u.Login {
			*s = ""
		}
	}
	for _, is := range t.Issues {
		fix(&is.Author)
		for i := range is.Edits {
			fix(&is.Edits[i].Editor)
		}
		for i := range is.Items {
			fix(&is.Items[i].Actor)
			for j := range is.Items[i].Edits {
				fix(&is.Items[i].Edits[j].Editor)
			}
		}
	}
	return true
}

func (t *ghTracker) Expected() map[string]bugState {
	out := map[string]bugState{}
	login := func(l string) string {
		if l == "" {
			return "ghost"
		}
		return l
	}
	for _, is := range t.Issues {
		st := bugState{IID: is.ID, Title: is.Title, Status: "open", Labels: is.labels()}
		if is.closed() {
			st.Status = "closed"
		}
		st.Comments = append(st.Comments, is.body())
		st.Authors = append(st.Authors, login(is.Author))
		for i := range is.Items {
			if it := &is.Items[i]; it.Kind == "IssueComment" {
				st.Comments = append(st.Comments, it.text())
				st.Authors = append(st.Authors, login(it.Actor))
			}
		}
		out[st.IID] = st
	}
	return out
}

func (t *ghTracker) clone() *ghTracker {
	c := *t
	c.Users = nil
	for _, u := range t.Users {
		uc := *u
		c.Users = append(c.Users, &uc)
	}
	c.Issues = nil
	for _, is := range t.Issues {
		ic := *is
		ic.Edits = append([]ghEdit(nil), is.Edits...)
		ic.Items = nil
		for _, it := range is.Items {
			itc := it
			itc.Edits = append([]ghEdit(nil), it.Edits...)
			ic.Items = append(ic.Items, itc)
		}
		c.Issues = append(c.Issues, &ic)
	}
	return &c
}

// ---- GraphQL endpoint -------------------------------------------------------------------------

type ghServer struct {
	mu        sync.Mutex
	t         *ghTracker
	issuesPS  int
	timelinePS int
	Fault     *fault
	Fired     map[string]int
	Requests  []string
	seen      map[string]int
	pre       *ghTracker
	listed    []string
	haveCut   bool
	cut       [3]int
}

func (s *ghServer) resetRound(f *fault) {
	s.mu.Lock()
	s.Fault = f
	s.Requests = nil
	s.seen = map[string]int{}
	s.pre, s.listed, s.haveCut = nil, nil, false
	if f != nil && f.Kind == "midgrow" && f.Grow != nil {
		s.pre = s.t.clone()
		f.Grow()
	}
	s.mu.Unlock()
}

func (s *ghServer) round() ([]string, int) {
	s.mu.Lock()
	defer s.mu.Unlock()
	n := 0
	for _, v := range s.Fired {
		n += v
	}
	return append([]string(nil), s.Requests...), n
}

func (t *ghTracker) actor(login string) interface{} {
	if login == "" {
		return nil
	}
	for _, u := range t.Users {
		if u.Login == login {
			var name interface{}
			if u.Name != "" {
				name = u.Name
			}
			return map[string]interface{}{"__typename": "User", "login": u.Login, "avatarUrl": "https://avatars.example.org/" + u.Login, "name": name, "email": u.Email}
		}
	}
	return nil
}

func pageInfo(start, end string, next, prev bool) map[string]interface{} {
	return map[string]interface{}{"endCursor": end, "hasNextPage": next, "startCursor": start, "hasPreviousPage": prev}
}

// edits are listed newest first; the importer asks for the last hundred, which with the handful
// of edits generated here is always the whole list (edit pagination is not exercised)
func (t *ghTracker) editsJSON(edits []ghEdit) map[string]interface{} {
	nodes := []interface{}{}
	for i := len(edits) - 1; i >= 0; i-- {
		e := edits[i]
		nodes = append(nodes, map[string]interface{}{"id": e.ID, "createdAt": ts(e.At), "updatedAt": ts(e.At), "editedAt": ts(e.At), "editor": t.actor(e.Editor),
			"deletedAt": nil, "deletedBy": nil, "diff": e.Diff})
	}
	start, end := "", ""
	if len(edits) > 0 {
		start, end = edits[len(edits)-1].ID, edits[0].ID
	}
	return map[string]interface{}{"nodes": nodes, "pageInfo": pageInfo(start, end, false, false)}
}

func (t *ghTracker) itemJSON(it *ghItem) map[string]interface{} {
	m := map[string]interface{}{"__typename": it.Kind, "id": it.ID, "createdAt": ts(it.At)}
	switch it.Kind {
	case "IssueComment":
		m["author"] = t.actor(it.Actor)
		m["body"] = it.text()
		m["url"] = "https://github.com/owner/project/issues/1#issuecomment-" + it.ID
		m["userContentEdits"] = t.editsJSON(it.Edits)
	case "LabeledEvent", "UnlabeledEvent":
		m["actor"] = t.actor(it.Actor)
		m["label"] = map[string]interface{}{"name": it.Label}
	case "RenamedTitleEvent":
		m["actor"] = t.actor(it.Actor)
		m["currentTitle"] = it.Title
		m["previousTitle"] = it.Prev
	default:
		m["actor"] = t.actor(it.Actor)
	}
	return m
}

func (s *ghServer) timelineJSON(t *ghTracker, is *ghIssue, after string) map[string]interface{} {
	lo := 0
	if after != "" {
		for i, it := range is.Items {
			if it.ID == after {
				lo = i + 1
			}
		}
	}
	hi := lo + s.timelinePS
	if hi > len(is.Items) {
		hi = len(is.Items)
	}
	nodes := []interface{}{}
	for i := lo; i < hi; i++ {
		nodes = append(nodes, t.itemJSON(&is.Items[i]))
	}
	start, end := "", ""
	if hi > lo {
		start, end = is.Items[lo].ID, is.Items[hi-1].ID
	}
	return map[string]interface{}{"nodes": nodes, "pageInfo": pageInfo(start, end, hi < len(is.Items), lo > 0)}
}

func strVar(vars map[string]interface{}, k string) string {
	if v, ok := vars[k].(string); ok {
		return v
	}
	return ""
}

func (t *ghTracker) issueByID(id string) *ghIssue {
	for _, is := range t.Issues {
		if is.ID == id {
			return is
		}
	}
	return nil
}

func (t *ghTracker) listing(since int64) []*ghIssue {
	var out []*ghIssue
	for _, is := range t.Issues {
		if is.Updated >= since {
			out = append(out, is)
		}
	}
	return out
}

func sinceOf(vars map[string]interface{}) int64 {
	return updatedAfterString(strVar(vars, "issueSince"))
}

// classify names the request: kind, node, cursor -> key; and its position in the canonical order.
func (s *ghServer) classify(query string, vars map[string]interface{}) (kind, key string) {
	switch {
	case strings.Contains(query, "rateLimit"):
		return "rateLimit", "rateLimit"
	case strings.Contains(query, "user(login:"):
		return "user", "user:" + strVar(vars, "login")
	case strings.Contains(query, "issues(first:"):
		return "issues", "issues?after=" + strVar(vars, "issueAfter")
	case strings.Contains(query, "timelineItems(first:"):
		return "timeline", "timeline:" + strVar(vars, "gqlNodeId") + "?after=" + strVar(vars, "timelineAfter")
	case strings.Contains(query, "on IssueComment"):
		return "commentEdits", "commentEdits:" + strVar(vars, "gqlNodeId") + "?before=" + strVar(vars, "commentEditBefore")
	case strings.Contains(query, "userContentEdits("):
		return "issueEdits", "issueEdits:" + strVar(vars, "gqlNodeId") + "?before=" + strVar(vars, "issueEditBefore")
	}
	return "unknown", "unknown"
}

func (s *ghServer) position(key string) (pos [3]int, ok bool) {
	switch {
	case strings.HasPrefix(key, "issues?after="):
		c := strings.TrimPrefix(key, "issues?after=")
		idx := 0
		if c != "" {
			idx = 1 << 30
			for i, id := range s.listed {
				if id == c {
					idx = i + 1
				}
			}
		}
		return [3]int{idx, 0, 0}, true
	case strings.HasPrefix(key, "timeline:"):
		rest := strings.TrimPrefix(key, "timeline:")
		id, c, _ := strings.Cut(rest, "?after=")
		idx := 1 << 30
		for i, x := range s.listed {
			if x == id {
				idx = i
			}
		}
		n := 0
		if is := s.t.issueByID(id); is != nil {
			for i, it := range is.Items {
				if it.ID == c {
					n = i + 1
				}
			}
		}
		return [3]int{idx, 1, n}, true
	}
	return pos, false
}

func (s *ghServer) RoundTrip(req *http.Request) (*http.Response, error) {
	s.mu.Lock()
	defer s.mu.Unlock()
	raw, _ := io.ReadAll(req.Body)
	var in struct {
		Query     string                 `json:"query"`
		Variables map[string]interface{} `json:"variables"`
	}
	_ = json.Unmarshal(raw, &in)
	kind, key := s.classify(in.Query, in.Variables)
	s.seen[key]++
	if s.seen[key] == 1 {
		s.Requests = append(s.Requests, key)
	}
	if err := req.Context().Err(); err != nil {
		return nil, err
	}
	t := s.t
	if s.Fault != nil && (s.Fault.Kind == "midgrow" || s.Fault.Kind == "cancel") {
		if s.listed == nil && kind == "issues" {
			src := s.t
			if s.pre != nil {
				src = s.pre
			}
			s.listed = []string{}
			for _, is := range src.listing(sinceOf(in.Variables)) {
				s.listed = append(s.listed, is.ID)
			}
			s.cut, s.haveCut = s.position(s.Fault.Key)
		}
		pos, ok := s.position(key)
		atOrAfter := ok && s.haveCut && !posLess(pos, s.cut)
		if atOrAfter {
			s.Fired[s.Fault.Kind]++
		}
		switch {
		case s.Fault.Kind == "cancel" && atOrAfter:
			return nil, errCanceled{}
		case s.Fault.Kind == "midgrow" && !atOrAfter && s.pre != nil && ok:
			t = s.pre
		}
	} else if s.Fault != nil && s.Fault.Key == key {
		fk := s.Fault.Kind
		if s.seen[key] == 1 || fk == "500-persistent" || fk == "graphql-error" {
			switch fk {
			case "transport":
				s.Fired[fk]++
				return nil, errTransport{}
			case "500-once", "500-persistent":
				s.Fired[fk]++
				return jsonResponse(req, 502, []byte(`{"message":"Bad Gateway"}`), nil), nil
			case "404":
				s.Fired[fk]++
				return jsonResponse(req, 404, []byte(`{"message":"Not Found"}`), nil), nil
			case "bad-json":
				s.Fired[fk]++
				return jsonResponse(req, 200, []byte(`{"data": {"repository": `), nil), nil
			case "graphql-error":
				s.Fired[fk]++
				return jsonResponse(req, 200, []byte(`{"data":null,"errors":[{"message":"Something went wrong while executing your query."}]}`), nil), nil
			case "rate-limit":
				s.Fired[fk]++
				return jsonResponse(req, 200, []byte(`{"data":null,"errors":[{"type":"RATE_LIMITED","message":"API rate limit exceeded for user ID 1."}]}`), nil), nil
			}
		}
	}
	data := s.serve(t, kind, in.Variables)
	body, _ := json.Marshal(map[string]interface{}{"data": data})
	if s.Fault != nil && s.Fault.Key == key && s.Fault.Kind == "truncated" && s.seen[key] == 1 && len(body) > 4 {
		s.Fired["truncated"]++
		body = body[:len(body)/2]
	}
	return jsonResponse(req, 200, body, nil), nil
}

type errCanceled struct{}

func (errCanceled) Error() string { return "context canceled" }

func (s *ghServer) serve(t *ghTracker, kind string, vars map[string]interface{}) interface{} {
	switch kind {
	case "rateLimit":
		return map[string]interface{}{"rateLimit": map[string]interface{}{"resetAt": ts(t.Clock + 20)}}
	case "user":
		login := strVar(vars, "login")
		if login == "ghost" {
			return map[string]interface{}{"user": map[string]interface{}{"login": "ghost", "avatarUrl": "https://avatars.example.org/ghost", "name": "Deleted user"}}
		}
		for _, u := range t.Users {
			if u.Login == login && !u.Deleted {
				var name interface{}
				if u.Name != "" {
					name = u.Name
				}
				return map[string]interface{}{"user": map[string]interface{}{"login": u.Login, "avatarUrl": "https://avatars.example.org/" + u.Login, "name": name}}
			}
		}
		return map[string]interface{}{"user": nil}
	case "issues":
		list := t.listing(sinceOf(vars))
		lo := 0
		if after := strVar(vars, "issueAfter"); after != "" {
			lo = len(list)
			for i, is := range list {
				if is.ID == after {
					lo = i + 1
				}
			}
		}
		hi := lo + s.issuesPS
		if hi > len(list) {
			hi = len(list)
		}
		nodes := []interface{}{}
		for _, is := range list[lo:hi] {
			nodes = append(nodes, map[string]interface{}{
				"id": is.ID, "createdAt": ts(is.Created), "author": t.actor(is.Author), "title": is.Title, "number": is.Number, "body": is.body(),
				"url":              fmt.Sprintf("https://github.com/owner/project/issues/%d", is.Number),
				"userContentEdits": t.editsJSON(is.Edits),
				"timelineItems":    s.timelineJSON(t, is, ""),
			})
		}
		start, end := "", ""
		if hi > lo {
			start, end = list[lo].ID, list[hi-1].ID
		}
		return map[string]interface{}{"repository": map[string]interface{}{"issues": map[string]interface{}{"nodes": nodes, "pageInfo": pageInfo(start, end, hi < len(list), lo > 0)}}}
	case "timeline":
		is := t.issueByID(strVar(vars, "gqlNodeId"))
		if is == nil {
			return map[string]interface{}{"node": nil}
		}
		return map[string]interface{}{"node": map[string]interface{}{"__typename": "Issue", "timelineItems": s.timelineJSON(t, is, strVar(vars, "timelineAfter"))}}
	case "issueEdits":
		is := t.issueByID(strVar(vars, "gqlNodeId"))
		if is == nil {
			return map[string]interface{}{"node": nil}
		}
		return map[string]interface{}{"node": map[string]interface{}{"__typename": "Issue", "userContentEdits": t.editsJSON(nil)}}
	case "commentEdits":
		return map[string]interface{}{"node": map[string]interface{}{"__typename": "IssueComment", "userContentEdits": t.editsJSON(nil)}}
	}
	return map[string]interface{}{}
}

func (t *ghTracker) Ver() int     { return t.Version }
func (t *ghTracker) Clk() *int64  { return &t.Clock }
func (t *ghTracker) NUsers() int  { return len(t.Users) + 1 } // + ghost
// Collision names the one condition under which the importer is known to lose an edit: a text
// created empty and edited later (the mediator drops edit-history entries with an empty diff, so
// the entry standing for the creation vanishes and the first real edit is taken for it).
func (t *ghTracker) Collision() string {
	for _, is := range t.Issues {
		if is.Body == "" && len(is.Edits) > 0 {
			return "with a GitHub issue created with an empty description and edited later (" + is.ID + ")"
		}
	}
	return ""
}
func (t *ghTracker) ActionsOf() map[string]int {
	out := map[string]int{}
	for _, is := range t.Issues {
		out[is.ID] = is.Actions
	}
	return out
}
func (t *ghTracker) MetaKeys() (string, string) { return "github-id", "github-login" }

func (s *ghServer) faultKey(st *sim.Step) string {
	t := s.t
	if len(t.Issues) == 0 {
		return "issues?after="
	}
	is := t.Issues[st.B%len(t.Issues)]
	switch st.K {
	case "issues":
		k := st.N % (len(t.Issues)/s.issuesPS + 1)
		if k == 0 {
			return "issues?after="
		}
		i := k*s.issuesPS - 1
		if i >= len(t.Issues) {
			i = len(t.Issues) - 1
		}
		return "issues?after=" + t.Issues[i].ID
	case "users":
		return "user:ghost"
	default:
		// a later page of the issue's timeline (the first page rides in the issue listing)
		if len(is.Items) <= s.timelinePS {
			return "timeline:" + is.ID + "?after=none"
		}
		k := 1 + st.N%((len(is.Items)-1)/s.timelinePS)
		return "timeline:" + is.ID + "?after=" + is.Items[k*s.timelinePS-1].ID
	}
}
