#!/bin/bash
# tools/seeded_regress.sh [budget_s] : every kept seeded change against the check of its property, one after
# the other (applies each patch to /repo's working tree and reverts it). One line per change.
B=${1:-35}
cd /verif
for d in seeded/*/; do
  n=$(basename $d)
  prop=$(python3 -c "import json; print(json.load(open('$d/meta.json'))['property'])")
  out=$(tools/try_mutant.sh /verif/$d/patch.diff $prop $B 2>&1)
  rc=$(echo "$out" | grep -a -m1 '^rc=' | cut -d= -f2)
  kinds=$(echo "$out" | grep -a '^  kind=' | sed 's/^  kind=\([a-z0-9()-]*\).*/\1/' | sort -u | tr '\n' ' ')
  echo "$n prop=$prop rc=$rc kinds=[$kinds]"
done
