// Package apisim drives the router that commands/webui.go assembles (mux + optional
// auth.Middleware + GraphQL handler + upload handler) in-process: simulated clients with and
// without identity issue generated requests. Decides C17.
package apisim

import (
	"crypto/sha1"
	"sync"
	"time"
	"bytes"
	"encoding/json"
	"fmt"
	"mime/multipart"
	"net/http"
	"net/http/httptest"
	"os"
	"path/filepath"
	"sort"
	"strings"

	"github.com/gorilla/mux"

	"github.com/MichaelMure/git-bug/api/auth"
	"github.com/MichaelMure/git-bug/api/graphql"
	httpapi "github.com/MichaelMure/git-bug/api/http"
	"github.com/MichaelMure/git-bug/cache"
	"github.com/MichaelMure/git-bug/entity"
	"github.com/MichaelMure/git-bug/repository"
	"github.com/MichaelMure/git-bug/zzverif/model"
	"github.com/MichaelMure/git-bug/zzverif/sim"
	"github.com/MichaelMure/git-bug/zzverif/verifrt"
)

type Engine struct{}

func (e *Engine) Name() string { return "apisim" }

func init() { sim.Register(&Engine{}, "C17") }

func (e *Engine) Describe(prop string) sim.PropInfo {
	return sim.PropInfo{Level: "exploration",
		Rule: "one server (the routes of commands/webui.go over a real MultiRepoCache) and two client populations: anonymous (router without the auth middleware = read-only web UI) and authenticated (router with auth.Middleware); the mutation list and every input type are discovered by GraphQL introspection of the served schema at run time; per run a generated sequence of requests: every discovered mutation with generated valid and invalid arguments (bug and comment prefixes, texts, label lists, file hashes, repository references), uploads of valid and invalid files, and queries in between, each sent by a drawn client; non-trivial = run with at least one anonymous mutation and one accepted authenticated mutation; distinct = distinct request-sequence hash",
		Kinds: []string{"anonymous-mutation-accepted", "anonymous-upload-accepted", "state-changed-without-user", "query-refused", "wrong-author", "wrong-change", "returned-bug-differs", "collateral-change", "request-never-completes", "panic"},
		Real:  []string{"api/graphql (generated gqlgen server, resolvers)", "api/http upload and file handlers", "api/auth middleware and context", "cache.MultiRepoCache / RepoCache", "gorilla/mux router assembled like commands/webui.go"},
		Stub:  []string{"HTTP transport: requests go through ServeHTTP with a recorder (no sockets)", "wall clock, crypto/rand.Reader"},
		Assumptions: []string{
			"simulation content is modest here: two parties with different rights and a frame condition over the whole repository (refs, cache files, listed ids)",
			"text inputs compared for equality are plain ASCII without trailing blanks (the resolvers clean texts up); other inputs are only checked for authorship, operation count and absence of collateral change",
			"mutations unknown to the harness (added later) get the generic checks: refused without a user, authored by the user and confined to one bug with one",
		}}
}

func (e *Engine) Simplify(s sim.Step) []sim.Step { return nil }

func (e *Engine) Generate(prop, tier string, seed uint64, run int) *sim.Plan {
	rs := sim.Mix(seed, uint64(run)+0xC17)
	r := sim.NewRand(rs)
	// the identity configured in the repository (what the CLI would use) is somebody else or
	// nobody in most runs: the API must author with the request's user, not with that one
	p := &sim.Plan{Property: prop, Engine: "apisim", Tier: tier, Seed: seed, Run: run, RunSeed: rs, Cfg: map[string]interface{}{
		"configured": []string{"other", "other", "none", "same"}[r.Intn(4)]}}
	n := r.Range(10, 30)
	if tier == "thorough" {
		n = r.Range(20, 80)
	}
	for i := 0; i < n; i++ {
		st := sim.Step{Id: i + 1, N: r.Intn(1000), B: r.Intn(8), A: r.Intn(100)}
		st.Op = []string{"mutation", "mutation", "mutation", "mutation", "upload", "query"}[r.Intn(6)]
		st.K = []string{"anon", "auth"}[r.Intn(2)]
		st.F = []string{"valid", "valid", "valid", "invalid"}[r.Intn(4)]
		st.S = fmt.Sprintf("text %d", r.Intn(1000))
		p.Steps = append(p.Steps, st)
	}
	return p
}

type server struct {
	anon http.Handler
	auth http.Handler
}

func post(h http.Handler, query string) (int, map[string]interface{}, string) {
	body, _ := json.Marshal(map[string]interface{}{"query": query})
	req := httptest.NewRequest("POST", "/graphql", bytes.NewReader(body))
	req.Header.Set("Content-Type", "application/json")
	rec := httptest.NewRecorder()
	h.ServeHTTP(rec, req)
	var out map[string]interface{}
	_ = json.Unmarshal(rec.Body.Bytes(), &out)
	return rec.Code, out, rec.Body.String()
}

func hasErrors(resp map[string]interface{}) bool {
	errs, ok := resp["errors"].([]interface{})
	return ok && len(errs) > 0
}

type field struct {
	Name     string
	TypeName string // innermost named type
	List     bool
	NonNull  bool
}

func unwrap(t map[string]interface{}) field {
	f := field{}
	first := true
	for t != nil {
		kind, _ := t["kind"].(string)
		switch kind {
		case "NON_NULL":
			if first {
				f.NonNull = true
			}
		case "LIST":
			f.List = true
		default:
			f.TypeName, _ = t["name"].(string)
			return f
		}
		first = false
		t, _ = t["ofType"].(map[string]interface{})
	}
	return f
}

const typeRef = "kind name ofType { kind name ofType { kind name ofType { kind name } } }"

type mutationInfo struct {
	Name      string
	InputType string
	Fields    []field
}

// introspect discovers the mutations and their input types from the served schema.
func introspect(h http.Handler) ([]mutationInfo, error) {
	_, resp, raw := post(h, "{ __schema { mutationType { fields { name args { name type { "+typeRef+" } } } } } }")
	if hasErrors(resp) || resp["data"] == nil {
		return nil, fmt.Errorf("introspection failed: %s", sim.Trunc(raw, 300))
	}
	data := resp["data"].(map[string]interface{})
	mt, _ := data["__schema"].(map[string]interface{})["mutationType"].(map[string]interface{})
	var out []mutationInfo
	for _, f := range mt["fields"].([]interface{}) {
		fm := f.(map[string]interface{})
		mi := mutationInfo{Name: fm["name"].(string)}
		for _, a := range fm["args"].([]interface{}) {
			am := a.(map[string]interface{})
			if am["name"] == "input" {
				mi.InputType = unwrap(am["type"].(map[string]interface{})).TypeName
			}
		}
		if mi.InputType != "" {
			_, r2, raw2 := post(h, fmt.Sprintf(`{ __type(name: %q) { inputFields { name type { %s } } } }`, mi.InputType, typeRef))
			if hasErrors(r2) {
				return nil, fmt.Errorf("introspection of %s failed: %s", mi.InputType, sim.Trunc(raw2, 300))
			}
			t, _ := r2["data"].(map[string]interface{})["__type"].(map[string]interface{})
			for _, inf := range t["inputFields"].([]interface{}) {
				im := inf.(map[string]interface{})
				fl := unwrap(im["type"].(map[string]interface{}))
				fl.Name = im["name"].(string)
				mi.Fields = append(mi.Fields, fl)
			}
		}
		out = append(out, mi)
	}
	sort.Slice(out, func(i, j int) bool { return out[i].Name < out[j].Name })
	return out, nil
}

func gqlString(s string) string {
	b, _ := json.Marshal(s)
	return string(b)
}

type world struct {
	w      *sim.World
	rep    *sim.Replica
	mrc    *cache.MultiRepoCache
	rc     *cache.RepoCache
	userId string
	otherId string
	bugs   []string
	blob   string
}

// digest of everything a request without a user must leave alone.
func (x *world) digest() string {
	var parts []string
	t, _ := sim.RefTable(x.rep.Raw, "refs/")
	for k, v := range t {
		parts = append(parts, k+"="+v)
	}
	for _, f := range []string{"cache/bugs", "cache/identities"} {
		b, _ := os.ReadFile(filepath.Join(x.rep.Dir, ".git", "git-bug", f))
		parts = append(parts, f+"="+model.Sha256Hex(b)[:12])
	}
	var ids []string
	for _, id := range x.rc.Bugs().AllIds() {
		ids = append(ids, string(id))
	}
	sort.Strings(ids)
	parts = append(parts, "ids="+strings.Join(ids, ","))
	sort.Strings(parts)
	return strings.Join(parts, "\n")
}

func (x *world) bugOps() map[string][]model.RawOp {
	out := map[string][]model.RawOp{}
	refs, _ := x.rep.Raw.ListRefs("refs/bugs/")
	for _, ref := range refs {
		e, err := model.ReadEntity(x.rep.Raw, ref)
		if err != nil {
			continue
		}
		out[model.RefId(ref)] = e.OrderedOps()
	}
	return out
}

const bugSelection = `bug { id status title labels { name } author { id } comments(first: 100) { totalCount nodes { message } } operations(first: 500) { totalCount } }`

func (e *Engine) Execute(p *sim.Plan, keepLog bool) (res *sim.RunResult) {
	res = &sim.RunResult{Faults: map[string]int{}, Probes: map[string]int{}}
	w := sim.NewWorld(p.RunSeed, keepLog)
	defer w.Close()
	viol := map[string]bool{}
	step := 0
	add := func(kind, format string, a ...interface{}) {
		if viol[kind] {
			return
		}
		viol[kind] = true
		res.Violations = append(res.Violations, sim.Violation{Property: p.Property, Kind: kind, Detail: fmt.Sprintf(format, a...), Step: step})
	}
	defer func() {
		if r := recover(); r != nil {
			if msg := fmt.Sprint(r); strings.HasPrefix(msg, "verif: the lock wanted at ") {
				// the leaked-lock probe fired on the harness's own goroutine (a look at a bug between two requests)
				add("request-never-completes", "a read of a bug would have blocked for ever: %s", strings.TrimPrefix(msg, "verif: "))
				return
			}
			res.HarnessErr = fmt.Sprintf("harness panic at step %d: %v", step, r)
		}
	}()
	rep := w.AddReplica("server", "entity", 1_700_000_000)
	w.Act(rep)
	sim.SetRandStep(1)
	if err := rep.Init(); err != nil {
		res.HarnessErr = err.Error()
		return res
	}
	x := &world{w: w, rep: rep}
	x.mrc = cache.NewMultiRepoCache()
	rc, events := x.mrc.RegisterDefaultRepository(rep.Sim)
	for ev := range events {
		if ev.Err != nil {
			res.HarnessErr = "cache: " + ev.Err.Error()
			return res
		}
	}
	x.rc = rc
	user, err := rc.Identities().New("api user", "api@example.org")
	if err != nil {
		res.HarnessErr = err.Error()
		return res
	}
	other, err := rc.Identities().New("someone else", "else@example.org")
	if err != nil {
		res.HarnessErr = err.Error()
		return res
	}
	switch p.CfgStr("configured", "same") {
	case "same":
		_ = rc.SetUserIdentity(user)
	case "other":
		_ = rc.SetUserIdentity(other)
	}
	res.Probes["configured_"+p.CfgStr("configured", "same")]++
	x.userId, x.otherId = string(user.Id()), string(other.Id())
	for i := 0; i < 2; i++ {
		sim.SetRandStep(uint64(10 + i))
		b, _, err := rc.Bugs().NewRaw(other, rep.Wall, fmt.Sprintf("existing bug %d", i), "body", nil, nil)
		if err != nil {
			res.HarnessErr = err.Error()
			return res
		}
		x.bugs = append(x.bugs, string(b.Id()))
	}
	if h, err := rc.StoreData([]byte("an attached file")); err == nil {
		x.blob = string(h)
	}

	gh := graphql.NewHandler(x.mrc, nil)
	mk := func(withAuth bool) http.Handler {
		router := mux.NewRouter()
		if withAuth {
			router.Use(auth.Middleware(user.Id()))
		}
		router.Path("/graphql").Handler(gh)
		router.Path("/gitfile/{repo}/{hash}").Handler(httpapi.NewGitFileHandler(x.mrc))
		router.Path("/upload/{repo}").Methods("POST").Handler(httpapi.NewGitUploadFileHandler(x.mrc))
		return router
	}
	srv := server{anon: mk(false), auth: mk(true)}
	muts, err := introspect(srv.anon)
	if err != nil {
		res.HarnessErr = err.Error()
		return res
	}
	if len(muts) == 0 {
		res.HarnessErr = "introspection found no mutation"
		return res
	}
	res.Probes["mutations_discovered"] = len(muts)

	var seq []string
	anonMut, authOk := 0, 0
	// A request that blocks on a lock nobody will ever release would hang the simulation. Every
	// instrumented lock acquisition is probed first; a lock that stays taken for two seconds of
	// real time while the server is otherwise idle was leaked by an earlier request (the server
	// handles one request at a time here), and the request is abandoned there.
	var leaked []string
	var leakMu sync.Mutex
	verifrt.SetSchedHooks(func(m interface{}, mode string, site string) {
		free := func() bool {
			switch l := m.(type) {
			case *sync.RWMutex:
				if mode == "r" {
					if l.TryRLock() {
						l.RUnlock()
						return true
					}
					return false
				}
				if l.TryLock() {
					l.Unlock()
					return true
				}
				return false
			case *sync.Mutex:
				if l.TryLock() {
					l.Unlock()
					return true
				}
				return false
			}
			return true
		}
		if free() {
			return
		}
		deadline := time.Now().Add(10 * time.Second)
		for !free() {
			if time.Now().After(deadline) {
				leakMu.Lock()
				leaked = append(leaked, site)
				leakMu.Unlock()
				panic(fmt.Sprintf("verif: the lock wanted at %s is held by no running request", site))
			}
			time.Sleep(time.Millisecond)
		}
	}, nil)
	defer verifrt.SetSchedHooks(nil, nil)
	for i := range p.Steps {
		leakMu.Lock()
		nLeaked := len(leaked)
		leakMu.Unlock()
		if nLeaked > 0 {
			break
		}
		st := &p.Steps[i]
		step = i
		res.Steps++
		res.Cases++
		sim.SetRandStep(uint64(100 + st.Id))
		rep.Wall += 60
		h := srv.anon
		if st.K == "auth" {
			h = srv.auth
		}
		before := x.digest()
		opsBefore := x.bugOps()
		valid := st.F == "valid"
		switch st.Op {
		case "query":
			q := `{ repository { allBugs(first: 50) { totalCount nodes { id title status } } allIdentities(first: 10) { totalCount } } }`
			if st.N%2 == 0 && len(x.bugs) > 0 {
				q = fmt.Sprintf(`{ repository { bug(prefix: %q) { id title comments(first: 10) { totalCount } } } }`, x.bugs[st.B%len(x.bugs)][:8])
			}
			code, resp, raw := post(h, q)
			if code != 200 || hasErrors(resp) {
				add("query-refused", "a read-only query by the %s client failed: %d %s", st.K, code, sim.Trunc(raw, 300))
			}
			if x.digest() != before {
				add("collateral-change", "a query changed the repository")
			}
			res.Probes["query_"+st.K]++
			seq = append(seq, "q")
		case "upload":
			var buf bytes.Buffer
			mw := multipart.NewWriter(&buf)
			name := "uploadfile"
			if !valid {
				name = "wrongfield"
			}
			fw, _ := mw.CreateFormFile(name, "f.gif")
			// what the handler's content sniffing takes for an image, different for every request
			content := []byte(fmt.Sprintf("GIF89a uploaded %q #%d", st.S, st.Id))
			_, _ = fw.Write(content)
			_ = mw.Close()
			blobHash := fmt.Sprintf("%x", sha1.Sum(append([]byte(fmt.Sprintf("blob %d\x00", len(content))), content...)))
			req := httptest.NewRequest("POST", "/upload/"+[]string{"__default", "__default", "nope"}[st.N%3], &buf)
			req.Header.Set("Content-Type", mw.FormDataContentType())
			rec := httptest.NewRecorder()
			h.ServeHTTP(rec, req)
			res.Probes["upload_"+st.K]++
			if st.K == "anon" {
				if rec.Code == 200 {
					add("anonymous-upload-accepted", "an upload without a user was accepted: %s", sim.Trunc(rec.Body.String(), 200))
				} else if rec.Code != http.StatusForbidden && st.N%3 != 2 {
					add("anonymous-upload-accepted", "an upload without a user got status %d instead of 403: %s", rec.Code, sim.Trunc(rec.Body.String(), 200))
				}
				if x.digest() != before {
					add("state-changed-without-user", "an upload without a user changed refs, cache files or listed ids")
				}
				// refused means not stored: the file must not be in the object store afterwards
				if _, err := rep.Raw.ReadData(repository.Hash(blobHash)); err == nil {
					add("state-changed-without-user", "an upload without a user answered %d but the file is in the repository afterwards (blob %s; body %s)", rec.Code, blobHash[:8], sim.Trunc(rec.Body.String(), 120))
				}
				if strings.Contains(rec.Body.String(), "\"hash\"") {
					add("anonymous-upload-accepted", "an upload without a user answered %d with a stored-file hash in the body: %s", rec.Code, sim.Trunc(rec.Body.String(), 160))
				}
			} else if valid && st.N%3 != 2 {
				if rec.Code != 200 {
					add("wrong-change", "a valid upload by the authenticated user was refused: %d %s", rec.Code, sim.Trunc(rec.Body.String(), 160))
				} else if b, err := rep.Raw.ReadData(repository.Hash(blobHash)); err != nil || string(b) != string(content) {
					add("wrong-change", "an accepted upload is not readable back with its content (blob %s): %v", blobHash[:8], err)
				}
				res.Probes["upload_auth_stored"]++
			}
			if st.K != "anon" && x.digest() != before {
				add("collateral-change", "an upload changed refs, cache files or listed ids")
			}
			seq = append(seq, "u"+st.K)
		case "mutation":
			m := muts[st.N%len(muts)]
			args, exp := x.buildArgs(m, st, valid)
			doc := fmt.Sprintf(`mutation { %s(input: {%s}) { clientMutationId %s } }`, m.Name, args, bugSelection)
			code, resp, raw := post(h, doc)
			seq = append(seq, m.Name+":"+st.K+":"+st.F)
			res.Probes["mutation_"+st.K]++
			for _, pr := range verifrt.TakePanics() {
				add("panic", "panic in %s: %s", pr.Site, pr.Value)
			}
			ok := code == 200 && !hasErrors(resp) && resp["data"] != nil
			after := x.digest()
			if st.K == "anon" {
				anonMut++
				if ok {
					add("anonymous-mutation-accepted", "mutation %s was accepted without a user: %s", m.Name, sim.Trunc(raw, 300))
				}
				if after != before {
					add("state-changed-without-user", "mutation %s without a user changed refs, cache files or listed ids (response: %s)", m.Name, sim.Trunc(raw, 200))
				}
				continue
			}
			opsAfter := x.bugOps()
			// what changed
			var changed []string
			for id, ops := range opsAfter {
				if len(ops) != len(opsBefore[id]) {
					changed = append(changed, id)
				}
			}
			sort.Strings(changed)
			if !ok {
				res.Probes["auth_mutation_refused"]++
				if exp != nil && exp.refuse == "" && !strings.Contains(raw, "no label added or removed") {
					// valid arguments, a user attached: the requested change must be recorded
					add("wrong-change", "mutation %s (%s) with valid arguments and an authenticated user was refused: %s", m.Name, args, sim.Trunc(raw, 300))
				}
				if after != before {
					add("collateral-change", "mutation %s was refused (%s) but refs, cache files or listed ids changed", m.Name, sim.Trunc(raw, 200))
				}
				continue
			}
			authOk++
			if exp != nil && exp.refuse != "" {
				add("wrong-change", "mutation %s (%s) was accepted although %s (%d bugs changed)", m.Name, args, exp.refuse, len(changed))
				continue
			}
			if len(changed) != 1 {
				add("collateral-change", "mutation %s (%s) changed %d bugs: %v", m.Name, args, len(changed), changed)
				continue
			}
			id := changed[0]
			newOps := opsAfter[id][len(opsBefore[id]):]
			// the old operations are still there, in order
			for k, o := range opsBefore[id] {
				if opsAfter[id][k].Id != o.Id {
					add("collateral-change", "mutation %s rewrote the existing operations of bug %s", m.Name, id[:7])
				}
			}
			for _, o := range newOps {
				if o.Author != x.userId {
					add("wrong-author", "mutation %s recorded an operation authored by %s, the authenticated user is %s", m.Name, o.Author[:7], x.userId[:7])
				}
			}
			if exp != nil {
				if exp.bug != "" && exp.bug != id {
					add("wrong-change", "mutation %s addressed bug %s but bug %s changed", m.Name, exp.bug[:7], id[:7])
				}
				var types []int
				for _, o := range newOps {
					types = append(types, o.Type)
				}
				if fmt.Sprint(types) != fmt.Sprint(exp.types) {
					add("wrong-change", "mutation %s (%s) recorded operation types %v, expected %v", m.Name, args, types, exp.types)
				} else {
					for k, o := range newOps {
						if msg := exp.check(k, o); msg != "" {
							add("wrong-change", "mutation %s (%s): %s", m.Name, args, msg)
						}
					}
				}
			}
			// the returned bug reflects the change
			payload, _ := resp["data"].(map[string]interface{})[m.Name].(map[string]interface{})
			rb, _ := payload["bug"].(map[string]interface{})
			want := model.Interpret(opsAfter[id])
			if rb == nil {
				add("returned-bug-differs", "mutation %s returned no bug", m.Name)
			} else {
				gotTitle, _ := rb["title"].(string)
				gotStatus, _ := rb["status"].(string)
				wantStatus := map[int]string{1: "OPEN", 2: "CLOSED"}[want.Status]
				var gotLabels []string
				if ls, ok := rb["labels"].([]interface{}); ok {
					for _, l := range ls {
						gotLabels = append(gotLabels, l.(map[string]interface{})["name"].(string))
					}
				}
				nComments := -1
				if cm, ok := rb["comments"].(map[string]interface{}); ok {
					if f, ok := cm["totalCount"].(float64); ok {
						nComments = int(f)
					}
				}
				nOps := -1
				if om, ok := rb["operations"].(map[string]interface{}); ok {
					if f, ok := om["totalCount"].(float64); ok {
						nOps = int(f)
					}
				}
				if rb["id"] != id || gotTitle != want.Title || gotStatus != wantStatus || strings.Join(gotLabels, "\x00") != strings.Join(want.Labels, "\x00") || nComments != len(want.Comments) || nOps != len(want.OpIds) {
					add("returned-bug-differs", "mutation %s returned bug (id %v, title %q, status %s, labels %q, %d comments, %d operations); the stored bug %s has title %q, status %s, labels %q, %d comments, %d operations",
						m.Name, rb["id"], gotTitle, gotStatus, gotLabels, nComments, nOps, id[:7], want.Title, wantStatus, want.Labels, len(want.Comments), len(want.OpIds))
				}
			}
			if m.Name == "newBug" {
				x.bugs = append(x.bugs, id)
			}
			// nothing else moved: every other ref is as before
			for other, ops := range opsBefore {
				if other != id && len(opsAfter[other]) != len(ops) {
					add("collateral-change", "mutation %s on bug %s also changed bug %s", m.Name, id[:7], other[:7])
				}
			}
		}
	}
	res.StepsOK = authOk
	res.LogHash = model.Sha256Hex([]byte(strings.Join(seq, "\n")))[:16]
	if anonMut > 0 && authOk > 0 {
		res.NTKey = "anon+auth"
	}
	if len(leaked) > 0 {
		add("request-never-completes", "a request would have blocked for ever: the lock wanted at %s was left taken by an earlier request (last requests: %s)", leaked[0], strings.Join(seq[max(0, len(seq)-3):], " | "))
		return res // closing the cache would block on the same lock
	}
	_ = gh.Close()
	_ = entity.UnsetId
	return res
}

type expectation struct {
	refuse string // non-empty: the arguments name no target, the request must be refused
	bug   string
	types []int
	check func(k int, o model.RawOp) string
}

// buildArgs renders the input object of a mutation from its introspected fields.
func (x *world) buildArgs(m mutationInfo, st *sim.Step, valid bool) (string, *expectation) {
	bug := x.bugs[st.B%len(x.bugs)]
	vals := map[string]string{}
	var parts []string
	title := "title " + st.S
	message := "message " + st.S
	added := []string{"api-label", "l" + fmt.Sprint(st.A%3)}
	targeted, targetMatches, targetOp := false, 0, ""
	for _, f := range m.Fields {
		var v string
		switch {
		case f.Name == "clientMutationId":
			v = gqlString("cm-" + st.S)
		case f.Name == "repoRef":
			if !valid && st.A%4 == 0 {
				v = gqlString("no-such-repo")
			} else if st.A%3 == 0 {
				v = gqlString("__default")
			} else {
				continue
			}
		case f.Name == "prefix":
			if valid {
				v = gqlString(bug[:8+st.A%20])
			} else {
				v = gqlString([]string{"zzzzzz", "", bug[:8] + "q"}[st.A%3])
			}
		case f.Name == "targetPrefix":
			// a prefix of the combined id of one comment of the bug, of a drawn length: what it
			// addresses is decided by counting the comments of the whole repository it matches
			comb := ""
			if bc, err := x.rc.Bugs().Resolve(entity.Id(bug)); err == nil {
				if cs := bc.Snapshot().Comments; len(cs) > 0 {
					comb = string(cs[st.A%len(cs)].CombinedId())
				}
			}
			pfx := "ffffffff"
			if comb != "" {
				if valid {
					pfx = comb[:[]int{20, 20, 64, 12, 3}[st.N/7%5]]
				} else {
					pfx = []string{"ffffffff", comb[:1], comb[:2], ""}[st.A%4]
				}
			}
			targetMatches, targetOp = 0, ""
			for _, id := range x.rc.Bugs().AllIds() {
				if bc, err := x.rc.Bugs().Resolve(id); err == nil {
					for _, c := range bc.Snapshot().Comments {
						if strings.HasPrefix(string(c.CombinedId()), pfx) {
							targetMatches++
							targetOp = string(c.TargetId())
						}
					}
				}
			}
			targeted = true
			v = gqlString(pfx)
		case f.Name == "title":
			if valid {
				v = gqlString(title)
			} else {
				v = gqlString([]string{"", "   ", "bad\u0007title"}[st.A%3])
			}
		case f.Name == "message":
			v = gqlString(message)
		case f.Name == "files":
			if st.A%3 == 0 && x.blob != "" {
				v = "[" + gqlString(x.blob) + "]"
			} else if !valid && st.A%5 == 0 {
				v = `["not-a-hash"]`
			} else {
				continue
			}
		case f.Name == "added":
			v = "[" + gqlString(added[0]) + "," + gqlString(added[1]) + "]"
		case strings.EqualFold(f.Name, "removed"):
			v = "[]"
		case f.TypeName == "String" && f.List:
			v = "[]"
		case f.TypeName == "String":
			v = gqlString(st.S)
		case f.TypeName == "Int":
			v = "1"
		case f.TypeName == "Boolean":
			v = "true"
		default:
			if !f.NonNull {
				continue
			}
			v = gqlString(st.S)
		}
		vals[f.Name] = v
		parts = append(parts, f.Name+": "+v)
	}
	args := strings.Join(parts, ", ")
	if targeted && targetMatches != 1 {
		// a prefix that matches several comments (or none) names no comment: whatever an accepted
		// request records is a change nobody requested
		return args, &expectation{refuse: fmt.Sprintf("its comment prefix matches %d comments", targetMatches)}
	}
	if !valid {
		return args, nil
	}
	exp := &expectation{bug: bug, check: func(int, model.RawOp) string { return "" }}
	switch m.Name {
	case "newBug":
		exp.bug = ""
		exp.types = []int{model.OpCreate}
		exp.check = func(k int, o model.RawOp) string {
			if o.F.Title != title || o.F.Message != message {
				return fmt.Sprintf("created bug has title %q message %q, requested %q %q", o.F.Title, o.F.Message, title, message)
			}
			return ""
		}
	case "addComment":
		exp.types = []int{model.OpAddComment}
		exp.check = func(k int, o model.RawOp) string {
			if o.F.Message != message {
				return fmt.Sprintf("comment stored as %q, requested %q", o.F.Message, message)
			}
			return ""
		}
	case "addCommentAndClose":
		exp.types = []int{model.OpAddComment, model.OpSetStatus}
		exp.check = func(k int, o model.RawOp) string {
			if k == 1 && o.F.Status != 2 {
				return "the status operation does not close the bug"
			}
			return ""
		}
	case "addCommentAndReopen":
		exp.types = []int{model.OpAddComment, model.OpSetStatus}
		exp.check = func(k int, o model.RawOp) string {
			if k == 1 && o.F.Status != 1 {
				return "the status operation does not reopen the bug"
			}
			return ""
		}
	case "editComment":
		exp.types = []int{model.OpEditComment}
		exp.check = func(k int, o model.RawOp) string {
			if o.F.Message != message {
				return fmt.Sprintf("edit stored as %q, requested %q", o.F.Message, message)
			}
			if o.F.Target != targetOp {
				return fmt.Sprintf("the edit targets comment %.7s, the prefix addresses comment %.7s", o.F.Target, targetOp)
			}
			return ""
		}
	case "changeLabels":
		exp.types = []int{model.OpLabelChange}
	case "openBug":
		exp.types = []int{model.OpSetStatus}
		exp.check = func(k int, o model.RawOp) string {
			if o.F.Status != 1 {
				return "openBug recorded a status other than open"
			}
			return ""
		}
	case "closeBug":
		exp.types = []int{model.OpSetStatus}
		exp.check = func(k int, o model.RawOp) string {
			if o.F.Status != 2 {
				return "closeBug recorded a status other than closed"
			}
			return ""
		}
	case "setTitle":
		exp.types = []int{model.OpSetTitle}
		exp.check = func(k int, o model.RawOp) string {
			if o.F.Title != title {
				return fmt.Sprintf("title stored as %q, requested %q", o.F.Title, title)
			}
			return ""
		}
	default:
		return args, nil // a mutation this harness does not know: generic checks only
	}
	return args, exp
}
