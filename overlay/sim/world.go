package sim

import (
	"strings"
	"fmt"
	"os"
	"os/exec"
	"path/filepath"
	"sort"
	"sync"
	"time"

	"github.com/99designs/keyring"
	gogit "github.com/go-git/go-git/v5"

	"github.com/MichaelMure/git-bug/cache"
	"github.com/MichaelMure/git-bug/commands/execenv"
	"github.com/MichaelMure/git-bug/entities/bug"
	"github.com/MichaelMure/git-bug/repository"
	"github.com/MichaelMure/git-bug/util/process"
	"github.com/MichaelMure/git-bug/zzverif/verifrt"
)

// Stats counts what actually happened in a run (fired, not configured).
type Stats struct {
	mu     sync.Mutex
	Faults map[string]int
	Probes map[string]int
}

func (s *Stats) Fault(k string) { s.mu.Lock(); s.Faults[k]++; s.mu.Unlock() }
func (s *Stats) Probe(k string) { s.mu.Lock(); s.Probes[k]++; s.mu.Unlock() }

type Hub struct {
	Name string
	Dir  string
	Repo *gogit.Repository
}

type Replica struct {
	W     *World
	Idx   int
	Name  string
	Dir   string
	Level string // "entity" | "cache"

	Raw   *repository.GoGitRepo
	C     *Control
	Sim   *SimRepo
	Cache *cache.RepoCache

	Wall        int64 // unix seconds of this replica's wall clock
	Incarnation int
	UseLoaders  bool // true: library open path with the entity clock loaders; false: the command path (execenv.LoadRepo)
	Keys        repository.Keyring
	Remotes     []string
	Perm        *Rand // ListRefs permutation source, survives restarts
	Pid         int   // simulated pid of the current incarnation
}

type World struct {
	Root  string
	Seed  uint64
	Net   *Net
	Log   *EventLog
	Hubs  []*Hub
	Reps  []*Replica
	Stats *Stats
	cur   *Replica
	// IdleWall is the wall clock read when no replica is acting (adversary writes)
	IdleWall int64

	// simulated process table: every incarnation of a replica is a process
	pidMu   sync.Mutex
	nextPid int
	curPid  int
	live    map[int]bool
	// RealPids: simulated processes carry the pids of real idle children (set before the first NewPid)
	RealPids bool
	children map[int]*exec.Cmd
}

// NewPid starts a simulated process and makes it the current one. With RealPids the simulated
// process is backed by an operating-system process (an idle child) whose pid it carries, and
// whether a pid is alive is answered by git-bug's own util/process.IsRunning against the
// operating system instead of the simulator's table.
func (w *World) NewPid() int {
	w.pidMu.Lock()
	defer w.pidMu.Unlock()
	if w.RealPids {
		c := exec.Command("/bin/sleep", "300")
		if err := c.Start(); err == nil {
			pid := c.Process.Pid
			w.children[pid] = c
			w.live[pid] = true
			w.curPid = pid
			w.Stats.Probe("process_backed_by_a_real_pid")
			return pid
		}
		w.Stats.Probe("real_pid_spawn_failed")
	}
	w.nextPid++
	pid := 4000 + w.nextPid
	w.live[pid] = true
	w.curPid = pid
	return pid
}

func (w *World) SetCurPid(pid int) { w.pidMu.Lock(); w.curPid = pid; w.pidMu.Unlock() }

// EndPid is the death of a simulated process (for a real one: SIGKILL, then reaped like a
// shell reaps its children, so the pid is really gone).
func (w *World) EndPid(pid int) {
	w.pidMu.Lock()
	delete(w.live, pid)
	c := w.children[pid]
	delete(w.children, pid)
	w.pidMu.Unlock()
	if c != nil {
		_ = c.Process.Kill()
		_, _ = c.Process.Wait()
	}
}

func (w *World) PidLive(pid int) bool {
	w.pidMu.Lock()
	real := w.RealPids
	l := w.live[pid]
	_, backed := w.children[pid]
	w.pidMu.Unlock()
	if real && (backed || !l) {
		// a pid of the 4000 range that is alive is a simulated process whose child could not be
		// started; everything else is asked of the operating system through git-bug's own code
		got := process.IsRunning(pid)
		if got != l {
			w.Stats.Probe("real_IsRunning_differs_from_process_table")
		}
		return got
	}
	return l
}

var processRoot string

// ProcessRoot creates (once) the scratch root of this process and points HOME and
// XDG_CONFIG_HOME into it, so no global git configuration or keyring leaks in.
func ProcessRoot() string {
	if processRoot != "" {
		return processRoot
	}
	base := "/dev/shm"
	if _, err := os.Stat(base); err != nil {
		base = os.TempDir()
	}
	d, err := os.MkdirTemp(base, "verif-w.")
	if err != nil {
		panic(err)
	}
	processRoot = d
	home := filepath.Join(d, "home")
	_ = os.MkdirAll(filepath.Join(home, ".config"), 0o755)
	os.Setenv("HOME", home)
	os.Setenv("XDG_CONFIG_HOME", filepath.Join(home, ".config"))
	os.Setenv("GIT_CONFIG_NOSYSTEM", "1")
	return d
}

// CleanupProcessRoot removes everything this process created.
func CleanupProcessRoot() {
	if processRoot != "" {
		_ = os.RemoveAll(processRoot)
		processRoot = ""
	}
}

var worldCounter int

func NewWorld(seed uint64, keepLog bool) *World {
	root := ProcessRoot()
	worldCounter++
	w := &World{
		Root:  filepath.Join(root, fmt.Sprintf("w%d", worldCounter)),
		Seed:  seed,
		Log:   &EventLog{Keep: keepLog},
		Stats: &Stats{Faults: map[string]int{}, Probes: map[string]int{}},
		live:  map[int]bool{},
		children: map[int]*exec.Cmd{},
		IdleWall: 1_700_000_000,
	}
	_ = os.MkdirAll(w.Root, 0o755)
	w.Net = InstallNet()
	InstallRandReader(seed)
	verifrt.SetPid(func() int {
		w.pidMu.Lock()
		defer w.pidMu.Unlock()
		return w.curPid
	}, w.PidLive)
	verifrt.SetNow(func() time.Time {
		if w.cur != nil {
			return time.Unix(w.cur.Wall, 0)
		}
		return time.Unix(w.IdleWall, 0)
	})
	return w
}

func (w *World) Close() {
	for _, r := range w.Reps {
		r.drop()
	}
	w.pidMu.Lock()
	left := w.children
	w.children = map[int]*exec.Cmd{}
	w.pidMu.Unlock()
	for _, c := range left {
		_ = c.Process.Kill()
		_, _ = c.Process.Wait()
	}
	verifrt.SetNow(nil)
	verifrt.SetPid(nil, nil)
	_ = os.RemoveAll(w.Root)
}

// Act makes r the acting replica: its wall clock is what git-bug reads and it is the
// client end of network links.
func (w *World) Act(r *Replica) {
	w.cur = r
	if r != nil {
		w.SetCurPid(r.Pid)
		w.Net.mu.Lock()
		w.Net.Client = r.Name
		w.Net.mu.Unlock()
	}
}

func (w *World) AddHub(name string) *Hub {
	dir := filepath.Join(w.Root, strings.ReplaceAll(name, "/", "_")+".git")
	r, err := gogit.PlainInit(dir, true)
	if err != nil {
		panic(err)
	}
	h := &Hub{Name: name, Dir: dir, Repo: r}
	w.Hubs = append(w.Hubs, h)
	w.Net.AddHub(HostOf(name), r.Storer)
	return h
}

func (w *World) AddReplica(name, level string, wall int64) *Replica {
	r := &Replica{W: w, Idx: len(w.Reps), Name: name, Dir: filepath.Join(w.Root, name), Level: level, Wall: wall,
		UseLoaders: true, Keys: keyring.NewArrayKeyring(nil)}
	w.Reps = append(w.Reps, r)
	return r
}

var Loaders = []repository.ClockLoader{bug.ClockLoader}

// Init creates the repository on disk and opens the first incarnation.
func (r *Replica) Init() error {
	raw, err := repository.InitGoGitRepo(r.Dir, "git-bug")
	if err != nil {
		return err
	}
	r.Raw = raw
	// go-git's pack encoder races inside its pack index when it deltifies with a
	// window (several goroutines on one storer); pushes use the repository's
	// pack.window, so switch deltas off for the simulated replicas.
	f, err := os.OpenFile(filepath.Join(r.Dir, ".git", "config"), os.O_APPEND|os.O_WRONLY, 0o644)
	if err != nil {
		return err
	}
	_, _ = f.WriteString("[pack]\n\twindow = 0\n")
	_ = f.Close()
	return r.attach()
}

func (r *Replica) gitDir() string { return filepath.Join(r.Dir, ".git") }

func (r *Replica) attach() error {
	r.Incarnation++
	r.Pid = r.W.NewPid()
	r.C = NewControl(r.Name, r.W.Log)
	r.C.Perm = r.Perm
	RegisterFSControl(filepath.Join(r.gitDir(), "git-bug"), r.C)
	r.Sim = NewSimRepo(&keyringRepo{GoGitRepo: r.Raw, k: r.Keys}, r.C, filepath.Join(r.gitDir(), "git-bug", "clocks"))
	if r.Level == "cache" {
		c, err := cache.NewRepoCacheNoEvents(r.Sim)
		if err != nil {
			return fmt.Errorf("cache open: %w", err)
		}
		r.Cache = c
	}
	return nil
}

// keyringRepo swaps the file keyring for the replica's in-memory one.
type keyringRepo struct {
	*repository.GoGitRepo
	k repository.Keyring
}

func (k *keyringRepo) Keyring() repository.Keyring { return k.k }

// Open reopens the repository from its directory (a new process incarnation).
func (r *Replica) Open() error {
	if !r.UseLoaders {
		// the command path: exactly what every git-bug command does first
		if err := os.Chdir(r.Dir); err != nil {
			return err
		}
		env := execenv.NewEnv()
		if err := execenv.LoadRepo(env)(nil, nil); err != nil {
			return fmt.Errorf("open repo (execenv.LoadRepo): %w", err)
		}
		raw, ok := env.Repo.(*repository.GoGitRepo)
		if !ok {
			return fmt.Errorf("execenv.LoadRepo returned a %T", env.Repo)
		}
		r.Raw = raw
		return r.attach()
	}
	raw, err := repository.OpenGoGitRepo(r.Dir, "git-bug", Loaders)
	if err != nil {
		return fmt.Errorf("open repo: %w", err)
	}
	r.Raw = raw
	return r.attach()
}

// CloseClean closes cache and repository the way a command does at exit.
func (r *Replica) CloseClean() error {
	var err error
	if r.Cache != nil {
		err = r.Cache.Close()
		r.Cache = nil
	} else if r.Raw != nil {
		err = r.Raw.Close()
	}
	UnregisterFSControl(filepath.Join(r.gitDir(), "git-bug"), r.C)
	r.Raw, r.Sim = nil, nil
	r.W.EndPid(r.Pid)
	return err
}

// Kill is kill -9: the incarnation's I/O freezes, in-memory state is dropped. Open
// file handles (search index) are released, as the kernel would.
func (r *Replica) Kill() {
	if r.C != nil {
		r.C.Freeze()
	}
	r.drop()
}

func (r *Replica) drop() {
	if r.Raw != nil {
		_ = r.Raw.Close()
	}
	if r.C != nil {
		UnregisterFSControl(filepath.Join(r.gitDir(), "git-bug"), r.C)
	}
	r.Cache, r.Raw, r.Sim = nil, nil, nil
	r.W.EndPid(r.Pid)
}

func (r *Replica) AddRemote(name string, hub *Hub) error {
	r.Remotes = append(r.Remotes, name)
	return r.Raw.AddRemote(name, "sim://"+HostOf(hub.Name)+"/")
}

// Observer opens a side-effect-free read handle on the replica's current storage.
func (r *Replica) Observer() *Observer {
	return NewObserver(&keyringRepo{GoGitRepo: r.Raw, k: r.Keys})
}

// Refs returns a sorted "name hash" table of every ref under the prefix.
func RefTable(rd interface {
	ListRefs(string) ([]string, error)
	ResolveRef(string) (repository.Hash, error)
}, prefix string) (map[string]string, error) {
	refs, err := rd.ListRefs(prefix)
	if err != nil {
		return nil, err
	}
	sort.Strings(refs)
	out := map[string]string{}
	for _, ref := range refs {
		h, err := rd.ResolveRef(ref)
		if err != nil {
			return nil, err
		}
		out[ref] = string(h)
	}
	return out, nil
}

// Cur is the replica currently acting (its wall clock is the one git-bug reads).
func (w *World) Cur() *Replica { return w.cur }

// HostOf gives the host part of a hub's sim:// address. Remote (and hub) names may hold slashes,
// as git allows ("team/shared"); a host name may not.
func HostOf(hubName string) string { return strings.ReplaceAll(hubName, "/", ".") }
