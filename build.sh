#!/bin/bash
# Build the simulator from /repo's current working tree with the overlay.
# usage: build.sh <output-binary> [instrument flags...]   exit 2 on any failure
set -u
export GOFLAGS=-mod=mod GOPROXY=off GOSUMDB=off GOTOOLCHAIN=local CGO_ENABLED=0
V=$(cd "$(dirname "$0")" && pwd)
OUT=$(realpath -m "$1"); shift
REPO=${VERIF_REPO:-/repo}
if [ ! -x $V/bin/instrument ]; then
  (cd $V/tools/instrument && go build -o $V/bin/instrument .) || { echo "build: cannot build instrumenter" >&2; exit 2; }
fi
SCR=$(mktemp -d /dev/shm/verif-build.XXXXXX) || exit 2
trap 'rm -rf "$SCR"' EXIT
PORC=$(ls -d $(go env GOMODCACHE)/github.com/anishathalye/porcupine@v1.3.0 2>/dev/null | head -1)
[ -d "$PORC" ] || { echo "build: porcupine v1.3.0 not found in the module cache" >&2; exit 2; }
$V/bin/instrument -repo $REPO -out $SCR -overlaysrc $V/overlay -porcupine "$PORC" -modcache "$(go env GOMODCACHE)" "$@" || { echo "build: instrumentation failed" >&2; exit 2; }
cp $REPO/go.mod $SCR/go.mod && cp $REPO/go.sum $SCR/go.sum || exit 2
mkdir -p $(dirname $OUT) $V/evidence
cp $SCR/instrument_stats.json $OUT.stats.json
if ! GODEBUG=goindex=0 go build -C $REPO -modfile=$SCR/go.mod -overlay=$SCR/overlay.json -trimpath -o $OUT ${VERIF_MAIN:-./zzverif/cmd/verifsim} 2>$SCR/build.log; then
  echo "build: go build failed:" >&2; head -50 $SCR/build.log >&2; exit 2
fi
exit 0
