package repsim

import (
	"fmt"
	"os"
	"path/filepath"
	"sort"
	"strconv"
	"strings"

	"github.com/MichaelMure/git-bug/entities/bug"
	"github.com/MichaelMure/git-bug/entities/identity"
	"github.com/MichaelMure/git-bug/entity"
	"github.com/MichaelMure/git-bug/repository"
	"github.com/MichaelMure/git-bug/zzverif/model"
	"github.com/MichaelMure/git-bug/zzverif/sim"
)

type bugObs struct {
	Id    string
	Head  string
	Ent   *model.Entity
	Err   error // reference decoder / structure error
	Order []string
	Set   map[string]bool
}

type obs struct {
	Bugs   map[string]*bugObs
	Idents map[string][]string // identity id -> version commit hashes, oldest first
	Clocks map[string]uint64
	Refs   map[string]string
}

func readClockFile(dir, name string) (uint64, bool) {
	b, err := os.ReadFile(filepath.Join(dir, name))
	if err != nil {
		return 0, false
	}
	v, err := strconv.ParseUint(strings.TrimSpace(string(b)), 10, 64)
	if err != nil {
		return 0, false
	}
	return v, true
}

func decodeBug(rd model.Reader, ref string) *bugObs {
	bo := &bugObs{Id: model.RefId(ref), Set: map[string]bool{}}
	h, err := rd.ResolveRef(ref)
	if err == nil {
		bo.Head = string(h)
	}
	e, err := model.ReadEntity(rd, ref)
	if err != nil {
		bo.Err = err
		return bo
	}
	bo.Ent = e
	if err := e.CheckStructure(); err != nil {
		bo.Err = err
		return bo
	}
	bo.Order = e.OrderedOpIds()
	bo.Set = e.OpIdSet()
	return bo
}

// observe decodes the replica's current storage through the raw handle: no clock is
// witnessed, nothing is written.
func (x *run) observe(rs *repState) *obs {
	o := &obs{Bugs: map[string]*bugObs{}, Idents: map[string][]string{}, Clocks: map[string]uint64{}}
	if rs.r.Raw == nil {
		return o
	}
	raw := rs.r.Raw
	refs, _ := raw.ListRefs("refs/bugs/")
	sort.Strings(refs)
	for _, ref := range refs {
		bo := decodeBug(raw, ref)
		o.Bugs[bo.Id] = bo
		if bo.Ent != nil {
			for h := range bo.Ent.Commits {
				x.classifyNew(rs, bo.Ent, h)
			}
		}
	}
	irefs, _ := raw.ListRefs("refs/identities/")
	sort.Strings(irefs)
	for _, ref := range irefs {
		chain, err := model.ReadIdentity(raw, ref)
		if err != nil {
			o.Idents[model.RefId(ref)] = nil
			continue
		}
		var hs []string
		for _, v := range chain {
			hs = append(hs, v.CommitHash)
		}
		o.Idents[model.RefId(ref)] = hs
	}
	dir := filepath.Join(rs.r.Dir, ".git", "git-bug", "clocks")
	for _, n := range []string{"bugs-edit", "bugs-create"} {
		if v, ok := readClockFile(dir, n); ok {
			o.Clocks[n] = v
		}
	}
	return o
}

// classifyNew records shape probes for merge commits seen for the first time.
func (x *run) classifyNew(rs *repState, e *model.Entity, h string) {
	c := e.Commits[h]
	if len(c.Parents) < 2 || x.seenCommits["probe:"+h] {
		return
	}
	x.seenCommits["probe:"+h] = true
	anc := func(start string) map[string]bool {
		s := map[string]bool{}
		st := []string{start}
		for len(st) > 0 {
			k := st[len(st)-1]
			st = st[:len(st)-1]
			if s[k] {
				continue
			}
			s[k] = true
			st = append(st, e.Commits[k].Parents...)
		}
		return s
	}
	a, b := anc(c.Parents[0]), anc(c.Parents[1])
	la, lb := 0, 0
	mergesBelow := 0
	for k := range a {
		if !b[k] {
			la++
		}
		if len(e.Commits[k].Parents) > 1 {
			mergesBelow++
		}
	}
	for k := range b {
		if !a[k] {
			lb++
		}
	}
	x.probe("merge_commit")
	x.ntProbes["merge"] = true
	if la != lb {
		x.probe("unequal_fork")
		x.ntProbes["unequal"] = true
	}
	if la >= 3 || lb >= 3 {
		x.probe("fork_branch_ge3")
	}
	if mergesBelow > 0 {
		x.probe("cross_merge")
		x.ntProbes["cross"] = true
	}
	key := "pair:" + c.Parents[0] + "+" + c.Parents[1]
	key2 := "pair:" + c.Parents[1] + "+" + c.Parents[0]
	if x.seenCommits[key] || x.seenCommits[key2] {
		x.probe("double_merge")
	}
	x.seenCommits[key] = true
}

// gbRead reads a bug with git-bug's own reader through an observer handle.
func (x *run) gbRead(rs *repState, id string) (b *bug.Bug, err error) {
	defer func() {
		if r := recover(); r != nil {
			x.notePanic("bug.Read", r)
			b, err = nil, fmt.Errorf("PANIC in bug.Read: %v", r)
		}
	}()
	o := rs.r.Observer()
	return bug.Read(o, entity.Id(id))
}

// notePanic records a panic of git-bug code on the calling goroutine. Which property
// owns it is decided by the caller through the error it gets; C07 owns panics as such.
func (x *run) notePanic(where string, r interface{}) {
	x.probe("panic_observed")
	x.w.Log.Add("PANIC in %s: %v", where, r)
	if x.on("C07") {
		x.violate("panic", "panic in %s: %v", where, r)
	}
}

// guard runs a piece of git-bug code and converts a panic into an error.
func (x *run) guard(where string, f func() error) (err error) {
	defer func() {
		if r := recover(); r != nil {
			x.notePanic(where, r)
			err = fmt.Errorf("PANIC in %s: %v", where, r)
		}
	}()
	return f()
}

func opIds(b *bug.Bug) []string {
	var out []string
	for _, op := range b.Operations() {
		out = append(out, string(op.Id()))
	}
	return out
}

func eq(a, b []string) bool {
	if len(a) != len(b) {
		return false
	}
	for i := range a {
		if a[i] != b[i] {
			return false
		}
	}
	return true
}

func sh(ids []string) string {
	var p []string
	for _, s := range ids {
		if len(s) > 6 {
			s = s[:6]
		}
		p = append(p, s)
	}
	return "[" + strings.Join(p, " ") + "]"
}

// subseqOrder reports whether the elements of old keep their relative order in neu.
func subseqOrder(old, neu []string) bool {
	pos := map[string]int{}
	for i, s := range neu {
		pos[s] = i
	}
	last := -1
	for _, s := range old {
		p, ok := pos[s]
		if !ok {
			continue
		}
		if p < last {
			return false
		}
		last = p
	}
	return true
}

// afterStep runs the per-step monitors on the acting replica.
func (x *run) afterStep(rs *repState, s *sim.Step, pre, post *obs, stepErr error) {
	isMerge := s.Op == "pull" || s.Op == "merge"
	// ---- what git-bug itself writes obeys the rules it enforces on reading (C03): parents before
	// children on every clock, one root, creation time on the root
	if x.on("C03") && (s.Op == "edit" || s.Op == "newbug" || s.Op == "commit" || isMerge) {
		for id, nb := range post.Bugs {
			if nb.Err == nil {
				continue
			}
			if pb, ok := pre.Bugs[id]; ok && pb.Err != nil {
				continue // was already so before this step
			}
			x.violate("effect-before-cause", "bug %s on %s: the history stored by %s contradicts its own ancestry: %v", id[:7], rs.r.Name, s.Op, nb.Err)
		}
	}
	// ---- no operation ever disappears from a local ref (C02)
	if x.on("C02") && s.Op != "remove" {
		for id, pb := range pre.Bugs {
			if pb.Err != nil {
				continue
			}
			nb, ok := post.Bugs[id]
			if !ok {
				x.violate("operation-lost", "bug %s vanished from replica %s during %s", id[:7], rs.r.Name, s.Op)
				continue
			}
			lossKind := "operation-lost"
			if !isMerge {
				lossKind = "edit-after-merge-dropped-ops"
			}
			if nb.Err != nil {
				x.violate("entity-became-unreadable", "bug %s on %s: stored history no longer decodes after %s: %v", id[:7], rs.r.Name, s.Op, nb.Err)
				continue
			}
			for _, op := range pb.Order {
				if !nb.Set[op] {
					x.violate(lossKind, "bug %s on %s lost operation %s during %s (before %s, after %s)", id[:7], rs.r.Name, op[:7], s.Op, sh(pb.Order), sh(nb.Order))
					break
				}
			}
			if !subseqOrder(pb.Order, nb.Order) {
				x.violate("old-order-changed", "bug %s on %s: relative order of old operations changed during %s: %s -> %s", id[:7], rs.r.Name, s.Op, sh(pb.Order), sh(nb.Order))
			}
		}
	}
	// ---- identity chains only grow by appending, ids never change (C09)
	if x.on("C09") {
		for id, chain := range pre.Idents {
			now, ok := post.Idents[id]
			if !ok || chain == nil {
				continue
			}
			if !isPrefix(chain, now) {
				x.violate("history-not-append-only", "identity %s on %s: stored chain %s is not a prefix of the later chain %s (step %s)", id[:7], rs.r.Name, sh(chain), sh(now), s.Op)
			}
		}
		irefs, _ := rs.r.Raw.ListRefs("refs/identities/")
		for _, ref := range irefs {
			chain, err := model.ReadIdentity(rs.r.Raw, ref)
			if err != nil || len(chain) == 0 {
				continue
			}
			if chain[0].Id != model.RefId(ref) {
				x.violate("id-changed", "identity stored under %s but its first version hashes to %s", model.RefId(ref)[:7], chain[0].Id[:7])
			}
			// a stored local chain is a valid identity: no logical clock goes backwards or
			// disappears from one version to the next (what commit and merge must both refuse)
			for v := 1; v < len(chain); v++ {
				for name, t := range chain[v-1].Times {
					t2, ok := chain[v].Times[name]
					if !ok || t2 < t {
						x.violate("invalid-identity-accepted", "identity %s on %s after %s: version %d records clock %s=%d (present %v), the version before it %d", model.RefId(ref)[:7], rs.r.Name, s.Op, v, name, t2, ok, t)
					}
				}
			}
			o := rs.r.Observer()
			if gi, err := identity.ReadLocal(o, entity.Id(model.RefId(ref))); err == nil {
				if string(gi.Id()) != model.RefId(ref) {
					x.violate("id-changed", "identity %s reads back with id %s", model.RefId(ref)[:7], gi.Id())
				}
			}
		}
	}
	// ---- bugs whose head moved in this step
	var changed []string
	for id, nb := range post.Bugs {
		if pb, ok := pre.Bugs[id]; !ok || pb.Head != nb.Head {
			changed = append(changed, id)
		}
	}
	sort.Strings(changed)

	// readability through git-bug's own reader (C02 for merges; shared by C03/C10)
	for _, id := range changed {
		nb := post.Bugs[id]
		b, err := x.gbRead(rs, id)
		if err != nil {
			if x.on("C02") && isMerge {
				x.violate("entity-became-unreadable", "bug %s on %s unreadable after %s: %v", id[:7], rs.r.Name, s.Op, err)
			}
			if x.on("C04") && !isMerge && stepErr == nil {
				x.violate("validate-fails-on-reader", "bug %s on %s unreadable right after %s returned success: %v", id[:7], rs.r.Name, s.Op, err)
			}
			continue
		}
		x.checkRead(rs, nb, b)
	}

	for _, id := range changed {
		delete(rs.discarded, id) // its excerpt was rewritten
	}
	for id := range rs.discarded {
		if _, ok := post.Bugs[id]; !ok {
			delete(rs.discarded, id)
		}
	}
	// ---- cache coherence and queries (C11, C12)
	if rs.r.Cache != nil && x.on("C11", "C12") {
		x.cacheChecks(rs, false)
	}
	// ---- C05 clocks
	if x.on("C05") {
		x.clockMonitor(rs, s, pre, post, changed)
	} else {
		x.noteCommits(rs, post)
	}
}

// noteCommits keeps the global set of seen commits and the replica's running maxima.
func (x *run) noteCommits(rs *repState, post *obs) {
	for _, nb := range post.Bugs {
		if nb.Ent == nil {
			continue
		}
		for h, c := range nb.Ent.Commits {
			x.seenCommits[h] = true
			if c.EditTime > rs.maxEdit {
				rs.maxEdit = c.EditTime
			}
			if c.CreateTime > rs.maxCreate {
				rs.maxCreate = c.CreateTime
			}
		}
	}
}

func (x *run) clockMonitor(rs *repState, s *sim.Step, pre, post *obs, changed []string) {
	wEdit, wCreate := rs.maxEdit, rs.maxCreate
	for _, id := range changed {
		nb := post.Bugs[id]
		if nb.Ent == nil {
			continue
		}
		var hs []string
		for h := range nb.Ent.Commits {
			hs = append(hs, h)
		}
		sort.Strings(hs)
		for _, h := range hs {
			if x.seenCommits[h] {
				continue
			}
			c := nb.Ent.Commits[h]
			// a commit nobody has seen before: this replica wrote it in this step
			x.probe("commit_written")
			if c.EditTime <= wEdit {
				x.violate("edit-time-not-above-seen", "replica %s wrote commit %s of bug %s with edit time %d, but it already held a commit with edit time %d (step %s)", rs.r.Name, h[:7], id[:7], c.EditTime, wEdit, s.Op)
			}
			if len(c.Parents) == 0 && c.CreateTime <= wCreate && wCreate > 0 {
				x.violate("edit-time-not-above-seen", "replica %s wrote root commit %s with creation time %d, but it already held creation time %d", rs.r.Name, h[:7], c.CreateTime, wCreate)
			}
			for _, p := range c.Parents {
				if pc := nb.Ent.Commits[p]; pc != nil && pc.EditTime >= c.EditTime {
					x.violate("edit-time-not-above-seen", "commit %s edit time %d not above parent %s edit time %d", h[:7], c.EditTime, p[:7], pc.EditTime)
				}
			}
		}
	}
	x.noteCommits(rs, post)
	if s.Op != "delclocks" {
		for _, n := range []string{"bugs-edit", "bugs-create"} {
			a, okA := pre.Clocks[n]
			b, okB := post.Clocks[n]
			if okA && okB && b < a {
				kind := "clock-decreased"
				if s.Op == "restart" {
					kind = "clock-decreased-across-restart"
				}
				x.violate(kind, "clock %s of %s went from %d to %d during %s", n, rs.r.Name, a, b, s.Op)
			}
			if okA && !okB {
				x.violate("clock-unusable", "clock file %s of %s unreadable after %s", n, rs.r.Name, s.Op)
			}
		}
	}
}

// afterOpenClockCheck: right after a reopen, before the next write, every clock must
// be at least the maximum stored in the local refs.
func (x *run) afterOpenClockCheck(rs *repState) {
	if !x.on("C05") {
		return
	}
	post := x.observe(rs)
	var maxE, maxC uint64
	for _, nb := range post.Bugs {
		if nb.Ent == nil {
			continue
		}
		if m := nb.Ent.MaxEdit(); m > maxE {
			maxE = m
		}
		if m := nb.Ent.MaxCreate(); m > maxC {
			maxC = m
		}
	}
	if maxE == 0 {
		return
	}
	if v := post.Clocks["bugs-edit"]; v < maxE {
		x.violate("rebuilt-clock-too-low", "after reopening %s the edit clock is %d but local refs hold edit time %d (open path: %s)", rs.r.Name, v, maxE, openPath(rs))
	}
	if v := post.Clocks["bugs-create"]; v < maxC {
		x.violate("rebuilt-clock-too-low", "after reopening %s the creation clock is %d but local refs hold creation time %d (open path: %s)", rs.r.Name, v, maxC, openPath(rs))
	}
}

// checkRead compares what git-bug read with the reference decoding (C03, C04, C10).
func (x *run) checkRead(rs *repState, nb *bugObs, b *bug.Bug) {
	id := nb.Id
	got := opIds(b)
	if nb.Err != nil {
		if x.on("C03") {
			x.violate("bad-history-accepted", "bug %s on %s read fine but the reference decoder refuses it: %v", id[:7], rs.r.Name, nb.Err)
		}
		return
	}
	if x.on("C03") {
		if msg := nb.Ent.CausalityViolation(got); msg != "" {
			kind := "effect-before-cause"
			if strings.HasPrefix(msg, "pack order") {
				kind = "pack-order-broken"
			}
			x.violate(kind, "bug %s on %s: %s; order %s", id[:7], rs.r.Name, msg, sh(got))
		}
		if !eq(got, nb.Order) {
			x.violate("order-not-(edit,packid)", "bug %s on %s: read order %s, reference order %s", id[:7], rs.r.Name, sh(got), sh(nb.Order))
		}
		x.recordOrder(id, got)
		if len(nb.Ent.Commits) > 2 {
			x.ntProbes["multi-commit"] = true
		}
		packs := nb.Ent.OrderedPacks()
		for i := 1; i < len(packs); i++ {
			if packs[i].EditTime == packs[i-1].EditTime {
				x.probe("equal_edit_time_tiebreak")
			}
		}
	}
	if x.on("C04") {
		x.checkLedger(rs, nb, b)
	}
	if x.on("C10") {
		x.checkCompile(rs, nb, b)
		// the second half of the statement: the state the cache maintains incrementally (operations
		// applied to a live snapshot one by one as they are appended or merged in) equals a compilation
		// from scratch of what is stored
		if rs.r.Cache != nil && rs.alive && !rs.staged[id] {
			if bc, err := rs.r.Cache.Bugs().Resolve(entity.Id(id)); err == nil {
				live := model.FromSnapshot(bc.Snapshot())
				want := model.Interpret(nb.Ent.OrderedOps())
				x.probe("incremental_snapshot_compared")
				if k, d := want.Diff(live); k != "" {
					x.violate("incremental-differs-from-scratch", "bug %s on %s: the snapshot the cache maintains differs from the interpretation of the stored operations in %s: %s", id[:7], rs.r.Name, k, d)
				}
			}
		}
	}
}

func (x *run) recordOrder(id string, order []string) {
	for _, o := range x.orders[id] {
		if eq(o, order) {
			return
		}
	}
	x.orders[id] = append(x.orders[id], append([]string{}, order...))
}

// checkLedger: every operation the workload appended reads back identically (C04).
func (x *run) checkLedger(rs *repState, nb *bugObs, b *bug.Bug) {
	id := nb.Id
	if string(b.Id()) != id || nb.Ent.Id() != id {
		x.violate("id-changed", "bug stored under %s reads back with id %s (first stored operation hashes to %s)", id[:7], b.Id(), nb.Ent.Id())
	}
	if err := b.Validate(); err != nil {
		x.violate("validate-fails-on-reader", "bug %s fails validation on %s: %v", id[:7], rs.r.Name, err)
	}
	ops := nb.Ent.OrderedOps()
	gb := b.Operations()
	if len(gb) != len(ops) {
		x.violate("order-or-time-differs", "bug %s: %d operations read, %d stored", id[:7], len(gb), len(ops))
		return
	}
	// what one replica appended to a bug one after the other reads back in that order,
	// wherever it is read: each append was made on top of the previous one
	lastSeq, lastOp := map[int]int{}, map[int]string{}
	for _, ro := range ops {
		if lo, ok := x.ledger[ro.Id]; ok && lo.Bug == id {
			if lo.Seq < lastSeq[lo.Rep] {
				x.violate("order-or-time-differs", "bug %s on %s: operation %s was appended on replica %d before operation %s, but reads back after it", id[:7], rs.r.Name, ro.Id[:7], lo.Rep, lastOp[lo.Rep][:7])
			}
			lastSeq[lo.Rep], lastOp[lo.Rep] = lo.Seq, ro.Id
		}
	}
	for i, ro := range ops {
		g := gb[i]
		if string(g.Id()) != ro.Id {
			x.violate("id-not-hash-of-stored", "bug %s op %d: git-bug says id %s, stored form hashes to %s", id[:7], i, g.Id(), ro.Id)
			continue
		}
		lo, ok := x.ledger[ro.Id]
		if !ok {
			continue // e.g. a merge by another path; nothing recorded
		}
		x.ntProbes["ledger"] = true
		if lo.Rep != rs.r.Idx {
			x.ntProbes["ledger-remote"] = true
			x.probe("op_checked_on_other_replica")
		}
		if lo.Bug != id {
			x.violate("id-changed", "operation %s was appended to bug %s but is stored in %s", ro.Id[:7], lo.Bug[:7], id[:7])
		}
		if int(g.Type()) != lo.Type || ro.Type != lo.Type {
			x.violate("payload-differs", "op %s type: appended %d, read %d, stored %d", ro.Id[:7], lo.Type, g.Type(), ro.Type)
		}
		if string(g.Author().Id()) != lo.Author || ro.Author != lo.Author {
			x.violate("author-differs", "op %s author: appended %s, read %s, stored %s", ro.Id[:7], lo.Author[:7], g.Author().Id(), ro.Author)
		}
		if g.Time().Unix() != lo.Unix || ro.F.Timestamp != lo.Unix {
			x.violate("order-or-time-differs", "op %s time: appended %d, read %d", ro.Id[:7], lo.Unix, g.Time().Unix())
		}
		f := ro.F
		bad := ""
		switch lo.Type {
		case model.OpCreate:
			if f.Title != lo.Title || f.Message != lo.Message || !eq(f.Files, lo.Files) {
				bad = fmt.Sprintf("create: title %q/%q message %q/%q files %v/%v", lo.Title, f.Title, lo.Message, f.Message, lo.Files, f.Files)
			}
			if g2, ok := g.(*bug.CreateOperation); !ok || g2.Title != lo.Title || g2.Message != lo.Message {
				bad = "create (decoded by git-bug) differs"
			}
		case model.OpAddComment:
			if f.Message != lo.Message || !eq(f.Files, lo.Files) {
				bad = fmt.Sprintf("comment: %q/%q files %v/%v", lo.Message, f.Message, lo.Files, f.Files)
			}
			if g2, ok := g.(*bug.AddCommentOperation); !ok || g2.Message != lo.Message {
				bad = "comment (decoded by git-bug) differs"
			}
		case model.OpEditComment:
			if f.Message != lo.Message || f.Target != lo.Target || !eq(f.Files, lo.Files) {
				bad = fmt.Sprintf("edit: %q/%q target %s/%s", lo.Message, f.Message, lo.Target, f.Target)
			}
		case model.OpSetTitle:
			if f.Title != lo.Title || f.Was != lo.Was {
				bad = fmt.Sprintf("title: %q/%q was %q/%q", lo.Title, f.Title, lo.Was, f.Was)
			}
		case model.OpSetStatus:
			if f.Status != lo.Status {
				bad = fmt.Sprintf("status %d/%d", lo.Status, f.Status)
			}
		case model.OpLabelChange:
			if !eq(f.Added, lo.Added) || !eq(f.Removed, lo.Removed) {
				bad = fmt.Sprintf("labels +%q/%q -%q/%q", lo.Added, f.Added, lo.Removed, f.Removed)
			}
		case model.OpSetMetadata:
			if f.Target != lo.Target || !eqMap(f.NewMetadata, lo.NewMeta) {
				bad = fmt.Sprintf("set-metadata %v/%v", lo.NewMeta, f.NewMetadata)
			}
		}
		if bad == "" && !eqMapSubset(lo.Meta, f.Metadata) {
			bad = fmt.Sprintf("operation metadata %v/%v", lo.Meta, f.Metadata)
		}
		if bad != "" {
			x.violate("payload-differs", "op %s of bug %s on %s: %s", ro.Id[:7], id[:7], rs.r.Name, bad)
		}
		// attached files are stored with the entity and readable here
		for _, fh := range f.Files {
			want, known := x.files[fh]
			data, err := rs.r.Raw.ReadData(repository.Hash(fh))
			if err != nil {
				x.violate("file-missing-on-peer", "file %s attached to op %s is not readable on %s: %v", fh[:7], ro.Id[:7], rs.r.Name, err)
			} else if known && string(data) != string(want) {
				x.violate("file-missing-on-peer", "file %s attached to op %s has different content on %s", fh[:7], ro.Id[:7], rs.r.Name)
			} else if known && lo.Rep != rs.r.Idx {
				x.probe("file_checked_on_other_replica")
			}
		}
	}
}

func eqMap(a, b map[string]string) bool {
	if len(a) != len(b) {
		return false
	}
	for k, v := range a {
		if b[k] != v {
			return false
		}
	}
	return true
}

// the ledger recorded the operation's own metadata at append time; stored metadata must contain exactly it
func eqMapSubset(ledger, stored map[string]string) bool {
	for k, v := range stored {
		if ledger[k] != v {
			return false
		}
	}
	for k, v := range ledger {
		if sv, ok := stored[k]; ok && sv != v {
			return false
		}
	}
	return len(stored) <= len(ledger)
}

// checkCompile: the compiled state equals the reference interpretation (C10).
func (x *run) checkCompile(rs *repState, nb *bugObs, b *bug.Bug) {
	want := model.Interpret(nb.Ent.OrderedOps())
	got := model.FromSnapshot(b.Compile())
	if len(want.OpIds) >= 4 {
		x.ntProbes["interp"] = true
	}
	if k, d := want.Diff(got); k != "" {
		x.violate(k, "bug %s on %s: reference vs compiled: %s", nb.Id[:7], rs.r.Name, d)
		return
	}
	again := model.FromSnapshot(b.Compile())
	if k, d := got.Diff(again); k != "" {
		x.violate("compile-not-repeatable", "bug %s: second compilation differs in %s: %s", nb.Id[:7], k, d)
	}
}

// checkMerge is the C02 oracle for one fetch+merge on replica rs.
func (x *run) checkMerge(rs *repState, remote string, pre *obs, outs []mergeOutcome, mergeErr error) {
	if !x.on("C02", "C09") {
		return
	}
	raw := rs.r.Raw
	post := x.observe(rs)
	byId := map[string]*mergeOutcome{}
	for i := range outs {
		o := &outs[i]
		byId[fmt.Sprintf("%v/%s", o.IsBug, o.Id)] = o
	}
	statusName := func(s entity.MergeStatus) string {
		switch s {
		case entity.MergeStatusNew:
			return "new"
		case entity.MergeStatusInvalid:
			return "invalid"
		case entity.MergeStatusUpdated:
			return "updated"
		case entity.MergeStatusNothing:
			return "nothing"
		case entity.MergeStatusError:
			return "error"
		}
		return fmt.Sprint(int(s))
	}

	// identities first
	irefs, _ := raw.ListRefs("refs/remotes/" + remote + "/identities/")
	sort.Strings(irefs)
	for _, ref := range irefs {
		id := model.RefId(ref)
		chain, err := model.ReadIdentity(raw, ref)
		var rem []string
		for _, v := range chain {
			rem = append(rem, v.CommitHash)
		}
		loc, had := pre.Idents[id]
		now := post.Idents[id]
		expect := ""
		switch {
		case err != nil:
			expect = "invalid"
		case !had:
			expect = "new"
		case isPrefix(rem, loc):
			expect = "nothing"
		case isPrefix(loc, rem):
			expect = "updated"
		default:
			expect = "invalid"
		}
		if expect == "invalid" && err == nil {
			x.probe("ident_merge_diverged")
			x.ntProbes["ident-diverged"] = true
		}
		x.ntProbes["ident-"+expect] = true
		x.probe("ident_merge_" + expect)
		if x.on("C09") {
			x.checkIdentMerge(rs, id, expect, err == nil, loc, rem, now, had, byId["false/"+id], outs == nil, mergeErr)
			continue
		}
		if mergeErr != nil && outs == nil {
			continue
		}
		switch expect {
		case "new", "updated":
			if !eq(now, rem) && x.on("C02") {
				kind := "remote-op-missing"
				if expect == "new" {
					kind = "remote-only-entity-missing"
				}
				x.violate(kind, "identity %s on %s: expected %s from %s, local chain is %s, remote chain %s", id[:7], rs.r.Name, expect, remote, sh(now), sh(rem))
			}
		case "nothing", "invalid":
			if had && !eq(now, loc) && x.on("C02") {
				x.violate("operation-lost", "identity %s on %s changed although the merge should do nothing (%s): %s -> %s", id[:7], rs.r.Name, expect, sh(loc), sh(now))
			}
		}
		if o := byId["false/"+id]; o != nil && x.on("C02") {
			if got := statusName(o.Status); got != expect && got != "error" {
				x.violate("status-disagrees", "identity %s on %s: merge reported %q, what happened is %q (local %s, remote %s)", id[:7], rs.r.Name, got, expect, sh(loc), sh(rem))
			}
		}
	}

	// bugs
	refs, _ := raw.ListRefs("refs/remotes/" + remote + "/bugs/")
	sort.Strings(refs)
	for _, ref := range refs {
		id := model.RefId(ref)
		rb := decodeBug(raw, ref)
		valid := rb.Err == nil
		missingAuthor := false
		if valid {
			for _, c := range rb.Ent.Topo {
				if c.HasOps && c.Author != "" {
					if _, ok := post.Idents[c.Author]; !ok {
						missingAuthor = true
					}
				}
			}
		}
		pb, had := pre.Bugs[id]
		nb := post.Bugs[id]
		if had && pb.Err != nil {
			continue // local history was already broken before; other monitors report that
		}
		expect := ""
		switch {
		case !valid || missingAuthor:
			expect = "invalid"
		case !had:
			expect = "new"
		case pb.Head == rb.Head:
			expect = "nothing"
		case pb.Ent.Commits[rb.Head] != nil:
			expect = "nothing"
		case rb.Ent.Commits[pb.Head] != nil:
			expect = "updated"
		default:
			expect = "updated-merge"
		}
		x.probe("bug_merge_" + expect)
		x.ntProbes["bug-"+expect] = true
		if missingAuthor && !x.faults && !x.on("C09") {
			// without faults identities always travel with the bugs
			if x.on("C02") {
				// (C02 runs make identities diverge: a refused identity must not keep the others from
				// being merged, and this is how it shows first)
				x.violate("remote-only-entity-missing", "the author identity of bug %s, fetched from %s with the bug, is not local on %s after the merge, in a run without faults", id[:7], remote, rs.r.Name)
				continue
			}
			x.res.HarnessErr = fmt.Sprintf("author identity missing in a fault-free run (bug %s on %s)", id[:7], rs.r.Name)
			return
		}
		if outs == nil && mergeErr != nil {
			// one-call Pull stops at the first failure; only the no-loss monitor applies
			continue
		}
		if !x.on("C02") {
			continue
		}
		switch expect {
		case "invalid":
			if had && nb != nil && nb.Head != pb.Head {
				x.violate("operation-lost", "bug %s on %s: local ref moved although the remote version is invalid", id[:7], rs.r.Name)
			}
		case "new":
			if nb == nil {
				x.violate("remote-only-entity-missing", "bug %s exists on %s but not locally on %s after the merge", id[:7], remote, rs.r.Name)
			} else if nb.Head != rb.Head {
				x.violate("remote-only-entity-missing", "bug %s on %s: new local ref %s differs from the remote head %s", id[:7], rs.r.Name, nb.Head[:7], rb.Head[:7])
			}
		case "nothing":
			if nb == nil || nb.Head != pb.Head {
				x.violate("status-disagrees", "bug %s on %s: local ref moved although nothing was to merge", id[:7], rs.r.Name)
			}
		case "updated", "updated-merge":
			if nb == nil || nb.Err != nil {
				var e error
				if nb != nil {
					e = nb.Err
				}
				x.violate("entity-became-unreadable", "bug %s on %s after merging %s: %v", id[:7], rs.r.Name, remote, e)
				continue
			}
			for _, op := range rb.Order {
				if !nb.Set[op] {
					x.violate("remote-op-missing", "bug %s on %s: remote operation %s missing after the merge (local %s, remote %s)", id[:7], rs.r.Name, op[:7], sh(nb.Order), sh(rb.Order))
					break
				}
			}
			if expect == "updated" && nb.Head != rb.Head {
				x.violate("remote-op-missing", "bug %s on %s: fast-forward expected to %s, local head is %s", id[:7], rs.r.Name, rb.Head[:7], nb.Head[:7])
			}
		}
		if o := byId["true/"+id]; o != nil {
			got := statusName(o.Status)
			want := strings.TrimSuffix(expect, "-merge")
			if got != want && got != "error" {
				x.violate("status-disagrees", "bug %s on %s: merge reported %q, what happened is %q", id[:7], rs.r.Name, got, want)
			}
			if (got == "new" || got == "updated") && nb != nil && nb.Err == nil && o.Ops != nil {
				if !eq(o.Ops, nb.Order) {
					x.violate("returned-entity-not-merged", "bug %s on %s (%s): entity handed back has %s, the local ref now holds %s", id[:7], rs.r.Name, expect, sh(o.Ops), sh(nb.Order))
				}
			}
		}
	}
}

func sameSet(a, b []string) bool {
	if len(a) != len(b) {
		return false
	}
	m := map[string]bool{}
	for _, s := range a {
		m[s] = true
	}
	for _, s := range b {
		if !m[s] {
			return false
		}
	}
	return true
}

func openPath(rs *repState) string {
	if rs.r.UseLoaders {
		return "library, OpenGoGitRepo with clock loaders"
	}
	return "command, execenv.LoadRepo"
}

// checkIdentMerge is the C09 oracle for one identity in one merge.
func (x *run) checkIdentMerge(rs *repState, id, expect string, decodes bool, loc, rem, now []string, had bool, o *mergeOutcome, oneCall bool, mergeErr error) {
	status := ""
	if o != nil {
		switch o.Status {
		case entity.MergeStatusNew:
			status = "new"
		case entity.MergeStatusInvalid:
			status = "invalid"
		case entity.MergeStatusUpdated:
			status = "updated"
		case entity.MergeStatusNothing:
			status = "nothing"
		default:
			status = "error"
		}
	}
	switch expect {
	case "new", "updated":
		if oneCall && mergeErr != nil {
			return // the one-call Pull stops at the first refusal; state is judged by the explicit variant
		}
		if !eq(now, rem) {
			x.violate("ff-not-applied", "identity %s on %s: remote %s extends local %s but local is now %s", id[:7], rs.r.Name, sh(rem), sh(loc), sh(now))
		}
		if status != "" && status != expect && status != "error" {
			x.violate("ff-status-wrong", "identity %s on %s: merge reported %q, what happened is %q (local %s -> %s)", id[:7], rs.r.Name, status, expect, sh(loc), sh(now))
		}
	case "nothing":
		if !eq(now, loc) {
			x.violate("nothing-case-changed-local", "identity %s on %s: remote %s is equal or behind local %s but local became %s", id[:7], rs.r.Name, sh(rem), sh(loc), sh(now))
		}
		if status != "" && status != "nothing" && status != "error" {
			x.violate("ff-status-wrong", "identity %s on %s: merge reported %q although nothing changed", id[:7], rs.r.Name, status)
		}
	case "invalid":
		if had && !eq(now, loc) {
			x.violate("diverged-changed-local", "identity %s on %s: diverged or invalid remote %s changed local %s into %s", id[:7], rs.r.Name, sh(rem), sh(loc), sh(now))
		}
		if !had && now != nil {
			x.violate("diverged-accepted", "identity %s on %s: undecodable remote identity was accepted", id[:7], rs.r.Name)
		}
		if status != "" && status != "invalid" && status != "error" {
			x.violate("diverged-accepted", "identity %s on %s: merge of diverged histories (local %s, remote %s) reported %q instead of refusing", id[:7], rs.r.Name, sh(loc), sh(rem), status)
		}
	}
}

func isPrefix(p, full []string) bool {
	if len(p) > len(full) {
		return false
	}
	for i := range p {
		if p[i] != full[i] {
			return false
		}
	}
	return true
}

// ---- quiescence and final checks -------------------------------------------------------------

func (x *run) refsOf(rs *repState) string {
	var b strings.Builder
	for _, pfx := range []string{"refs/bugs/", "refs/identities/"} {
		t, _ := sim.RefTable(rs.r.Raw, pfx)
		var ks []string
		for k := range t {
			ks = append(ks, k)
		}
		sort.Strings(ks)
		for _, k := range ks {
			b.WriteString(k + " " + t[k] + "\n")
		}
	}
	return b.String()
}

// worldRefs is the signature used to detect quiescence: every replica's and every hub's refs.
func (x *run) worldRefs() string {
	var b strings.Builder
	for _, rs := range x.reps {
		if rs.alive {
			b.WriteString(x.refsOf(rs))
		}
	}
	for _, h := range x.w.Hubs {
		it, err := h.Repo.References()
		if err != nil {
			continue
		}
		var lines []string
		for {
			ref, err := it.Next()
			if err != nil {
				break
			}
			lines = append(lines, ref.Name().String()+" "+ref.Hash().String())
		}
		sort.Strings(lines)
		b.WriteString(h.Name + "\n" + strings.Join(lines, "\n"))
	}
	return b.String()
}

func (x *run) quiesce() {
	if !x.on("C01", "C03", "C04", "C10", "C11", "C12", "C15") {
		return
	}
	// faults stop
	x.w.Net.Fault = ""
	for k := range x.w.Net.Partition {
		delete(x.w.Net.Partition, k)
	}
	for _, rs := range x.reps {
		if rs.wiped {
			continue
		}
		x.w.Act(rs.r)
		if !rs.alive {
			if err := rs.r.Open(); err != nil {
				if x.on("C01") {
					x.violate("unreadable-after-sync", "replica %s cannot be reopened for the final synchronisation: %v", rs.r.Name, err)
				}
				continue
			}
			rs.alive = true
		}
		x.stepCommit(rs, &sim.Step{})
	}
	bound := 2*len(x.reps) + 2
	quiet := false
	rounds := 0
	for round := 0; round < bound+2; round++ {
		before := x.worldRefs()
		for _, rs := range x.reps {
			if !rs.alive {
				continue
			}
			x.w.Act(rs.r)
			rs.r.Wall += 60
			for hi := range x.w.Hubs {
				sim.SetRandStep(uint64(700000 + round*100 + rs.r.Idx*10 + hi))
				st := &sim.Step{Id: 700000 + round*100 + rs.r.Idx*10 + hi, Op: "pull", R: rs.r.Idx, H: hi}
				if !x.faults && x.prop != "C09" && x.prop != "C02" && rs.r.Idx%2 == 0 {
					// what a user does: the one-call pull (RepoCache.Pull, identity.Pull + bug.Pull). It
					// must bring in whatever an earlier fetch already left in the remote-tracking refs.
					st.K = "pull-api"
				}
				pre := x.observe(rs)
				err := x.guard("pull", func() error { return x.stepPull(rs, st, pre) })
				post := x.observe(rs)
				x.afterStep(rs, st, pre, post, err)
				st2 := &sim.Step{Op: "push", R: rs.r.Idx, H: hi}
				_ = x.stepPush(rs, st2)
				x.w.Log.Add("sync %s hub%d pull ok=%v", rs.r.Name, hi, err == nil)
			}
		}
		x.w.Log.EndStep(fmt.Sprintf("sync round %d", round), true)
		after := x.worldRefs()
		rounds = round + 1
		if before == after {
			quiet = true
			break
		}
	}
	x.quiet = quiet
	if x.on("C01") && len(x.w.Hubs) == 1 {
		if !quiet {
			x.violate("no-quiescence-within-bound", "refs still changing after %d synchronisation rounds (bound %d)", rounds, bound)
		} else if rounds > bound {
			x.violate("no-quiescence-within-bound", "quiescence needed %d rounds, bound is %d", rounds, bound)
		}
	}
	x.probe(fmt.Sprintf("sync_rounds_%d", rounds))
}

func (x *run) finalChecks() {
	if x.on("C15") {
		x.fsckAll()
		return
	}
	if x.on("C11", "C12") {
		for _, rs := range x.reps {
			if rs.alive && rs.r.Cache != nil {
				x.w.Act(rs.r)
				x.cacheChecks(rs, true)
			}
		}
		x.parseChecks(sim.Mix(x.p.RunSeed, 12))
		return
	}
	type view struct {
		rs    *repState
		o     *obs
		snaps map[string]*model.Snap
		order map[string][]string
	}
	var views []*view
	for _, rs := range x.reps {
		if !rs.alive || rs.r.Raw == nil {
			continue
		}
		x.w.Act(rs.r)
		v := &view{rs: rs, o: x.observe(rs), snaps: map[string]*model.Snap{}, order: map[string][]string{}}
		views = append(views, v)
		var ids []string
		for id := range v.o.Bugs {
			ids = append(ids, id)
		}
		sort.Strings(ids)
		for _, id := range ids {
			nb := v.o.Bugs[id]
			b, err := x.gbRead(rs, id)
			if err != nil {
				if x.on("C01") {
					x.violate("unreadable-after-sync", "bug %s unreadable on %s after synchronisation: %v", id[:7], rs.r.Name, err)
				}
				continue
			}
			x.checkRead(rs, nb, b)
			v.order[id] = opIds(b)
			v.snaps[id] = model.FromSnapshot(b.Compile())
			if x.on("C03") {
				for k := 0; k < 4; k++ {
					again, err := x.gbRead(rs, id)
					if err != nil {
						x.violate("reread-differs", "bug %s on %s: read again fails: %v", id[:7], rs.r.Name, err)
						break
					}
					if !eq(opIds(again), v.order[id]) {
						x.violate("reread-differs", "bug %s on %s: reading the same history again gives %s, first read %s", id[:7], rs.r.Name, sh(opIds(again)), sh(v.order[id]))
						break
					}
				}
				x.backendCheck(rs, nb, v.order[id])
			}
		}
		// ReadAll must stream the same entities
		if x.on("C01", "C03", "C04") {
			o := rs.r.Observer()
			if rs.r.Perm != nil {
				o.C.Perm = sim.NewRand(sim.Mix(x.p.RunSeed, 4242))
			}
			n := 0
			for se := range bug.ReadAll(o) {
				if se.Err != nil {
					if x.on("C01") {
						x.violate("unreadable-after-sync", "ReadAll on %s fails: %v", rs.r.Name, se.Err)
					}
					break
				}
				n++
				id := string(se.Entity.Id())
				if want, ok := v.order[id]; ok && !eq(opIds(se.Entity), want) && x.on("C03") {
					x.violate("enumeration-order-dependence", "bug %s on %s: ReadAll gives %s, Read gave %s", id[:7], rs.r.Name, sh(opIds(se.Entity)), sh(want))
				}
			}
			if n != len(v.order) && x.on("C01") && !x.viol["unreadable-after-sync"] {
				x.violate("unreadable-after-sync", "ReadAll on %s streamed %d bugs, %d are readable one by one", rs.r.Name, n, len(v.order))
			}
		}
		// cache replicas: the cache resolves what git holds
		if rs.r.Cache != nil && x.on("C01") {
			for _, id := range ids {
				bc, err := rs.r.Cache.Bugs().Resolve(entity.Id(id))
				if err != nil {
					x.violate("unreadable-after-sync", "cache of %s cannot resolve bug %s: %v", rs.r.Name, id[:7], err)
					continue
				}
				// what the replica shows is what it holds: the long-lived cache serves the merged history
				if want, ok := v.order[id]; ok && !rs.staged[id] {
					var shown []string
					for _, op := range bc.Snapshot().Operations {
						shown = append(shown, string(op.Id()))
					}
					if !eq(shown, want) {
						x.violate("snapshot-differs", "bug %s on %s after synchronisation: the cache shows %s, the repository holds %s", id[:7], rs.r.Name, sh(shown), sh(want))
					}
				}
			}
		}
	}
	if x.on("C03") {
		// monotonic reads: all observed orders of a bug agree on common operations
		for id, seqs := range x.orders {
			for i := 0; i < len(seqs); i++ {
				for j := i + 1; j < len(seqs); j++ {
					if !subseqOrder(seqs[i], seqs[j]) {
						x.violate("relative-order-flipped", "bug %s: two reads disagree on the relative order of operations: %s vs %s", id[:7], sh(seqs[i]), sh(seqs[j]))
					}
				}
			}
		}
	}
	if !x.on("C01") || len(views) < 2 {
		return
	}
	// ---- convergence
	// Ref-level equality is only asserted for replicas sharing one remote (the
	// statement's quantifier): with two remotes holding different heads every pull
	// creates a fresh merge commit and refs never settle, while operations do converge.
	if len(x.w.Hubs) == 1 && x.quiet {
		ref0 := x.refsOf(views[0].rs)
		for _, v := range views[1:] {
			if r := x.refsOf(v.rs); r != ref0 {
				x.violate("refs-differ-at-quiescence", "%s and %s hold different refs after synchronisation:\n%s---\n%s", views[0].rs.r.Name, v.rs.r.Name, ref0, r)
				return
			}
		}
	} else {
		x.probe("multi_hub_op_level_convergence_only")
	}
	for id, o0 := range views[0].order {
		for _, v := range views[1:] {
			o1, ok := v.order[id]
			if !ok {
				continue
			}
			// "each has received every operation the other knows"
			if !sameSet(o0, o1) {
				if len(x.w.Hubs) == 1 && x.quiet {
					x.violate("op-order-differs", "bug %s: after quiescence %s holds operations %s but %s holds %s", id[:7], views[0].rs.r.Name, sh(o0), v.rs.r.Name, sh(o1))
				}
				continue
			}
			if !eq(o0, o1) {
				x.violate("op-order-differs", "bug %s: %s reads %s, %s reads %s", id[:7], views[0].rs.r.Name, sh(o0), v.rs.r.Name, sh(o1))
			}
			if k, d := views[0].snaps[id].Diff(v.snaps[id]); k != "" {
				x.violate("snapshot-differs", "bug %s differs between %s and %s in %s: %s", id[:7], views[0].rs.r.Name, v.rs.r.Name, k, d)
			}
		}
		if nb := views[0].o.Bugs[id]; nb != nil && nb.Err == nil && !eq(o0, nb.Order) {
			x.violate("op-order-differs", "bug %s: replicas agree on %s but the reference order is %s", id[:7], sh(o0), sh(nb.Order))
		}
	}
}

// backendCheck transplants the object graph of a bug into the in-memory backend
// through the RepoData interface and reads it there (C03 backend-differs, C04).
func (x *run) backendCheck(rs *repState, nb *bugObs, want []string) {
	if nb.Ent == nil {
		return
	}
	mock := repository.NewMockRepo()
	raw := rs.r.Raw
	// identities of all authors
	copied := map[string]repository.Hash{}
	var copyCommit func(h string) (repository.Hash, error)
	copyTree := func(entries []repository.TreeEntry) (repository.Hash, error) {
		var out []repository.TreeEntry
		for _, en := range entries {
			switch en.ObjectType {
			case repository.Blob:
				data, err := raw.ReadData(en.Hash)
				if err != nil {
					return "", err
				}
				nh, _ := mock.StoreData(data)
				out = append(out, repository.TreeEntry{ObjectType: repository.Blob, Hash: nh, Name: en.Name})
			case repository.Tree:
				sub, err := raw.ReadTree(en.Hash)
				if err != nil {
					return "", err
				}
				var so []repository.TreeEntry
				for _, s := range sub {
					data, err := raw.ReadData(s.Hash)
					if err != nil {
						return "", err
					}
					nh, _ := mock.StoreData(data)
					so = append(so, repository.TreeEntry{ObjectType: repository.Blob, Hash: nh, Name: s.Name})
				}
				th, _ := mock.StoreTree(so)
				out = append(out, repository.TreeEntry{ObjectType: repository.Tree, Hash: th, Name: en.Name})
			}
		}
		return mock.StoreTree(out)
	}
	copyCommit = func(h string) (repository.Hash, error) {
		if nh, ok := copied[h]; ok {
			return nh, nil
		}
		c, err := raw.ReadCommit(repository.Hash(h))
		if err != nil {
			return "", err
		}
		var parents []repository.Hash
		for _, p := range c.Parents {
			np, err := copyCommit(string(p))
			if err != nil {
				return "", err
			}
			parents = append(parents, np)
		}
		entries, err := raw.ReadTree(c.TreeHash)
		if err != nil {
			return "", err
		}
		th, err := copyTree(entries)
		if err != nil {
			return "", err
		}
		nh, err := mock.StoreCommit(th, parents...)
		if err != nil {
			return "", err
		}
		copied[h] = nh
		return nh, nil
	}
	// the mock derives a commit's hash from tree+parents only, so two different commits
	// with equal content collapse; skip histories where that happens
	head, err := copyCommit(nb.Head)
	if err != nil {
		x.res.HarnessErr = "transplant: " + err.Error()
		return
	}
	distinct := map[repository.Hash]bool{}
	for _, v := range copied {
		distinct[v] = true
	}
	if len(distinct) != len(copied) {
		x.probe("transplant_skipped_hash_collapse")
		return
	}
	_ = mock.UpdateRef("refs/bugs/"+nb.Id, head)
	authors := map[string]bool{}
	for _, c := range nb.Ent.Topo {
		if c.Author != "" {
			authors[c.Author] = true
		}
	}
	for a := range authors {
		ih, err := raw.ResolveRef("refs/identities/" + a)
		if err != nil {
			continue
		}
		nh, err := copyCommit(string(ih))
		if err != nil {
			continue
		}
		_ = mock.UpdateRef("refs/identities/"+a, nh)
	}
	b, err := bug.Read(mock, entity.Id(nb.Id))
	if err != nil {
		x.violate("backend-differs", "bug %s reads on the git backend but not on the in-memory backend: %v", nb.Id[:7], err)
		return
	}
	x.probe("backend_transplant_read")
	if got := opIds(b); !eq(got, want) {
		x.violate("backend-differs", "bug %s: git backend order %s, in-memory backend order %s", nb.Id[:7], sh(want), sh(got))
	}
}

var _ = identity.ReadLocal

func (e *Engine) Describe(prop string) sim.PropInfo {
	real := []string{"entity/dag", "entities/bug", "entities/identity", "cache (RepoCache on cache-level replicas)", "repository.GoGitRepo on tmpfs", "util/lamport persisted clocks", "bleve index", "go-git client side of fetch and push"}
	stub := []string{"server side of the git transport: go-git in-process server behind a fault-injecting shim", "wall clock (verifrt.Now, per replica, skewed)", "crypto/rand.Reader (seeded counter stream)", "keyring (in memory)", "process death (I/O freeze + reopen)"}
	info := sim.PropInfo{Level: "exploration", Real: real, Stub: stub,
		Assumptions: []string{
			"the go-git in-process server behaves like git-upload-pack/git-receive-pack for the refs git-bug uses (fast-forward checks are done client side by go-git, as with stock git)",
			"a storage call (RepoData/RepoClock method) is atomic; process crash model, no power-loss model",
			"oracle reads use an observer handle whose clock writes go to throw-away memory clocks",
		}}
	switch prop {
	case "C01":
		info.Rule = "seeded plans of {new bug, edit with 1..6 operations, commit, push, pull, fetch, merge, partition, restart} on 2-3 replicas (entity API and cache API mixed) and 1-2 hubs, odd runs with network/crash faults, followed by synchronisation to quiescence; non-trivial = the final histories contain at least one merge commit; distinct = distinct event-log hash"
		info.Kinds = []string{"unreadable-after-sync", "refs-differ-at-quiescence", "op-order-differs", "snapshot-differs", "no-quiescence-within-bound"}
	case "C02":
		info.Rule = "same plans; every fetch+merge step is judged against the pre-state and the fetched remote-tracking state decoded by the reference decoder; non-trivial = at least one merge step whose expected outcome is new/updated/merge; distinct = distinct event-log hash"
		info.Kinds = []string{"entity-became-unreadable", "operation-lost", "old-order-changed", "remote-op-missing", "remote-only-entity-missing", "status-disagrees", "returned-entity-not-merged", "edit-after-merge-dropped-ops"}
	case "C03":
		info.Rule = "same plans; every read is compared with the reference orderer (edit time, pack id) and the commit DAG; transplant to the in-memory backend, permuted ref enumeration; non-trivial = a bug with more than two commits was read; distinct = distinct event-log hash"
		info.Kinds = []string{"effect-before-cause", "pack-order-broken", "order-not-(edit,packid)", "reread-differs", "backend-differs", "enumeration-order-dependence", "relative-order-flipped", "bad-history-accepted"}
	case "C04":
		info.Rule = "same plans with the wide text generator, attached files, several authors per staging area and restarts; every operation recorded at append time is compared after commit, restart and on other replicas with what is stored and what git-bug reads; non-trivial = at least one recorded operation was checked; distinct = distinct event-log hash"
		info.Kinds = []string{"id-changed", "id-not-hash-of-stored", "payload-differs", "author-differs", "order-or-time-differs", "validate-fails-on-reader", "file-missing-on-peer", "rejected-input-left-traces"}
	case "C05":
		info.Rule = "same plans plus clean/dirty restarts, deletion of clock files while closed, wall-clock jumps, library open path (clock loaders) and command open path (no loaders); non-trivial = a restart, clock deletion or merge happened; distinct = distinct event-log hash"
		info.Kinds = []string{"edit-time-not-above-seen", "clock-decreased", "clock-decreased-across-restart", "rebuilt-clock-too-low", "clock-unusable", "reopen-failed"}
	case "C09":
		info.Rule = "plans biased to identity mutation (name, email, login, avatar, metadata, invalid values) on any replica that knows the identity, with push/pull in between, so that all (common prefix, local suffix, remote suffix) classes arise; each identity merge is judged against the chains decoded by the reference decoder; non-trivial = an identity merge whose expected outcome is updated or refused-diverged happened; distinct = distinct event-log hash"
		info.Kinds = []string{"id-changed", "history-not-append-only", "ff-not-applied", "ff-status-wrong", "nothing-case-changed-local", "diverged-accepted", "diverged-changed-local", "invalid-identity-accepted"}
	case "C15":
		info.Rule = "every replica is a host repository prepared with stock git (two commits, a branch, a lightweight and an annotated tag, HEAD on a branch or detached, a staged and an unstaged change, untracked files, unrelated configuration keys); sessions mix library actions (entity and cache API) with commands of the real cobra tree run in-process (bug new/comment/title/status/label/rm/show/list, user new, push, pull) and bridge/credential configuration through the public API; after EVERY step every ref outside git-bug's namespaces (loose and packed), HEAD, the index file, every working-tree file and every configuration key outside git-bug.* must be unchanged and every new file under .git must lie in git-bug's places; at the end stock `git fsck --strict --no-dangling` and `git for-each-ref` run on every replica and hub (thorough: `git clone --mirror` + `git gc` + fsck); non-trivial = at least one step compared; distinct = distinct event-log hash"
		info.Kinds = []string{"foreign-ref-changed", "head-changed", "index-changed", "worktree-changed", "foreign-config-changed", "file-outside-namespace", "fsck-failed", "stock-git-transfer-failed"}
		info.Real = append(info.Real, "commands (cobra tree, in-process)", "stock git 2.39 as external oracle (fsck, for-each-ref, clone --mirror, gc) invoked synchronously at fixed points")
		info.Assumptions = append(info.Assumptions, "the interactive `bridge new` needs the network; its configuration and credential are written through repository.Config and auth.Store instead", "interactive commands (termui, webui) are not run")
	case "C14":
		info.Rule = "replicas with 0-3 configured remotes (1-3 hubs; replica 0 holds any subset of them), any subset of which hold the entity; removal of a bug (entity API, cache API by prefix, CLI `bug rm` run in-process as its own simulated process) or of an identity at any point of an edit/push/pull history; then: repeat the removal, merge every remote again without fetching, close and reopen, rebuild a cache from a copy; a `wipe` through the CLI ends some runs; oracle: all refs of the entity gone, every other ref, .git/config and every file of .git/git-bug outside cache/index byte-identical, entity not found by id, prefix, query or search; non-trivial = at least one successful removal or wipe; distinct = distinct event-log hash"
		info.Kinds = []string{"ref-survived", "tracking-ref-survived", "cache-entry-survived", "index-doc-survived", "frame-broken", "still-resolvable", "resurrected-without-fetch", "second-removal-harmful", "wipe-left-residue"}
		info.Assumptions = append(info.Assumptions, "identities that still author local bugs are not removed by the workload (that would legitimately break those bugs)", "ids sharing a long prefix cannot be engineered with hashed ids; removal by prefix uses 8-27 characters")
	case "C11":
		info.Rule = "sessions of two or three cache-level replicas sharing a hub: new bug, every edit kind, commit, push, pull (updates of bugs that exist locally, diverged merges), removal, identity mutation, cache-size changes forcing eviction, clean close/reopen, reopen after the cache or index directory was lost; after EVERY step the acting replica's directory is copied, cache and index dropped in the copy, a second RepoCache built there and compared: ids, every excerpt field, identity excerpts, known labels, a generated query set, search hits for marker tokens, metadata look-ups, and (at the end) resolved snapshots; non-trivial = at least one comparison against a rebuilt cache; distinct = distinct event-log hash"
		info.Kinds = []string{"ids-differ", "excerpt-differs", "snapshot-differs", "labels-differ", "query-differs", "search-differs", "metadata-lookup-differs", "identity-excerpt-differs"}
	case "C12":
		info.Rule = "same sessions with more bugs and few distinct search tokens, wall-clock skew between replicas and clock jumps; after every step a generated query set (status, author, actor, participant, label, title, no:label, metadata, single-token search; one sort each; rendered through the documented grammar with quoting) is evaluated by the live cache and by the reference evaluator over reference-interpreted snapshots: exact result set, no duplicates, sorted by the logical key; plus parser checks (arbitrary strings, round trip, malformed inputs); non-trivial = at least one query judged; distinct = distinct event-log hash"
		info.Kinds = []string{"parse-panic", "roundtrip-differs", "malformed-accepted", "result-set-differs", "duplicate-in-result", "not-sorted", "order-follows-wall-clock"}
		info.Assumptions = append(info.Assumptions, "search semantics are only judged for single tokens that the analyzer leaves intact (kwN); multi-term search is compared differentially in C11", "parser totality and round trip are pure functions of the string: that part is input generation riding on the simulator's client (DESIGN §5.12)")
	case "C10":
		info.Rule = "same plans; every bug read is compiled by git-bug and compared field by field with the reference interpreter applied to the reference-ordered stored operations; non-trivial = a bug with at least 4 operations was interpreted; distinct = distinct event-log hash"
		info.Kinds = []string{"compile-not-repeatable", "title", "status", "labels", "comments", "actors-participants", "timeline", "metadata-overridden", "op-order", "incremental-differs-from-scratch"}
	}
	return info
}
