// Package repsim is the sequential discrete-event simulation of replicas, hubs and
// clients. Monitors for C01–C05, C09–C12, C14, C15 attach to it.
package repsim

import (
	"fmt"
	"strings"

	"github.com/MichaelMure/git-bug/zzverif/sim"
)

// ---- text generator -----------------------------------------------------------------

var words = []string{"crash", "on", "startup", "login", "button", "does", "not", "render", "fix", "the", "parser", "when",
	"merging", "labels", "timeout", "regression", "docs", "typo", "api", "null", "pointer", "slow", "query", "cache"}

var uni = []string{"héllo", "naïve", "日本語", "テスト", "العربية", "עברית", "é", "ǻ", "🙂", "👩‍💻", "Ω≈ç√", "ß", "İi", "ǅ",
	"​", " ", "‮", "Ａ", "한글", "ไทย",
	// characters encoders treat specially: markup, quotes, back-slashes, the unicode line separators
	"R&D", "<b>bold</b>", "a<b&&c>d", "\"quoted\"", "back\\slash", "sep\u2028arator", "</script>", "'apostrophe'"}

func word(r *sim.Rand) string {
	if r.Chance(0.25) {
		return uni[r.Intn(len(uni))]
	}
	return words[r.Intn(len(words))]
}

// marker tokens survive the search analyzer intact and are unique enough to attribute
var markerPool = 40

func marker(r *sim.Rand) string { return fmt.Sprintf("kw%d", r.Intn(markerPool)) }

func genTitle(r *sim.Rand) string {
	n := r.Range(0, 4)
	parts := []string{words[r.Intn(len(words))]} // at least one graphic word: the title must not be empty
	for i := 0; i < n; i++ {
		parts = append(parts, word(r))
	}
	if r.Chance(0.5) {
		parts = append(parts, marker(r))
	}
	t := strings.Join(parts, " ")
	if r.Chance(0.1) {
		t = "  " + t + "  "
	}
	if r.Chance(0.05) {
		t = t + " " + strings.Repeat("x", r.Range(100, 400))
	}
	return t
}

func genMessage(r *sim.Rand) string {
	switch r.Intn(10) {
	case 0:
		return ""
	case 1:
		return " leading and trailing blanks \t"
	case 2:
		return "line one\r\nline two\r\n"
	case 3:
		// long body
		var b strings.Builder
		n := r.Range(200, 3000)
		for b.Len() < n {
			b.WriteString(word(r))
			b.WriteByte(' ')
			if r.Chance(0.1) {
				b.WriteByte('\n')
			}
		}
		return b.String()
	}
	n := r.Range(1, 12)
	var parts []string
	for i := 0; i < n; i++ {
		parts = append(parts, word(r))
	}
	if r.Chance(0.4) {
		parts = append(parts, marker(r))
	}
	sep := " "
	if r.Chance(0.2) {
		sep = "\n"
	}
	return strings.Join(parts, sep)
}

// attached files come from a small pool so that operations share attachments
var filePool = []string{"file:alpha", "file:beta\n", "file:", "file:gamma gamma gamma", "file:日本語", "file:" + strings.Repeat("z", 5000)}

func genFiles(r *sim.Rand) []string {
	n := r.Range(1, 3)
	var out []string
	for i := 0; i < n; i++ {
		if r.Chance(0.2) {
			out = append(out, "file:"+genMessage(r))
		} else {
			out = append(out, filePool[r.Intn(len(filePool))])
		}
	}
	return out
}

var labelPool = []string{"bug", "feature", "ui", "prio:high", "needs triage", "wontfix", "étiquette", "バグ", "a", "b", "c&d", "<tag>"}

func genLabels(r *sim.Rand, n int) []string {
	var out []string
	for i := 0; i < n; i++ {
		out = append(out, labelPool[r.Intn(len(labelPool))])
	}
	return out
}

// ---- plan generation --------------------------------------------------------------------

type weights struct {
	newbug, edit, commit, push, pull, fetch, merge, restart, identmut, remove, clockjump, partition, cachesize, delclocks, query, losecache, cli, addremote int
}

// Generate builds the plan of one run. Everything is drawn from the run seed.
func (e *Engine) Generate(prop, tier string, seed uint64, run int) *sim.Plan {
	rs := sim.Mix(seed, uint64(run)+0x5151)
	r := sim.NewRand(rs)
	p := &sim.Plan{Property: prop, Engine: "repsim", Tier: tier, Seed: seed, Run: run, RunSeed: rs, Cfg: map[string]interface{}{}}

	markerPool = 40
	if prop == "C12" || prop == "C11" {
		markerPool = 4 // many bugs share a search token
	}
	nrep := r.Range(2, 3)
	nhub := 1
	if r.Chance(0.25) {
		nhub = 2
	}
	if prop == "C14" {
		nhub = r.Range(1, 3)
	}
	// fault-free and fault-injecting configurations are separate; runs of a property
	// served by several engines are dealt round-robin, so count this engine's runs only
	ne := len(sim.PropEngines[prop])
	if ne == 0 {
		ne = 1
	}
	faults := (run/ne)%2 == 1
	var levels []string
	for i := 0; i < nrep; i++ {
		if r.Chance(0.5) || prop == "C11" || prop == "C12" {
			levels = append(levels, "cache")
		} else {
			levels = append(levels, "entity")
		}
	}
	maxSteps := 40
	if tier == "thorough" {
		maxSteps = 120
	}
	nsteps := r.Range(8, maxSteps)
	if prop == "C12" {
		nsteps = r.Range(20, maxSteps+20)
	}

	w := weights{newbug: 6, edit: 30, commit: 4, push: 14, pull: 18, fetch: 2, merge: 2}
	switch prop {
	case "C01", "C02", "C03", "C10":
		// replication workload; identities are mutated on their home replica only
		w.identmut = 3
		if prop == "C02" {
			w.identmut = 9 // (C02: a share of them away from home, so that pulls meet refused identities)
		}
	case "C15":
		w = weights{newbug: 6, edit: 16, commit: 2, push: 10, pull: 12, remove: 3, restart: 2, identmut: 2, cli: 34}
	case "C14":
		w = weights{newbug: 10, edit: 12, commit: 2, push: 14, pull: 14, fetch: 8, remove: 16, restart: 2, identmut: 2, losecache: 3, addremote: 2}
	case "C11":
		w = weights{newbug: 8, edit: 30, commit: 6, push: 14, pull: 18, fetch: 1, merge: 2, remove: 3, restart: 4, cachesize: 3, losecache: 2, identmut: 4}
	case "C12":
		w = weights{newbug: 16, edit: 30, commit: 4, push: 10, pull: 14, restart: 2, cachesize: 2, identmut: 3, clockjump: 4}
	case "C09":
		w = weights{newbug: 3, edit: 6, push: 16, pull: 20, fetch: 2, merge: 2, identmut: 24, restart: 2, delclocks: 2, commit: 6}
	case "C04":
		w.restart = 4
		w.edit = 40
	case "C05":
		w.restart = 8
		w.delclocks = 5
		w.clockjump = 2
	}
	if faults {
		w.partition = 3
		if prop != "C05" && prop != "C11" && prop != "C12" {
			w.restart += 2
		}
	}
	skews := []interface{}{}
	for i := 0; i < nrep; i++ {
		sk := 0
		if r.Chance(0.5) {
			sk = r.Range(-90*86400, 90*86400)
		}
		skews = append(skews, sk)
	}
	lv := []interface{}{}
	for _, l := range levels {
		lv = append(lv, l)
	}
	p.Cfg["replicas"] = nrep
	p.Cfg["hubs"] = nhub
	p.Cfg["levels"] = lv
	p.Cfg["faults"] = faults
	p.Cfg["skews"] = skews
	p.Cfg["permute_refs"] = r.Chance(0.5)
	p.Cfg["extra_idents"] = r.Intn(2)
	p.Cfg["loaders"] = true
	// one person working on several machines: every replica adopts the identity of replica 0 as
	// its user (what `git bug user adopt` does), so merge commits on different replicas have the
	// same author. Drawn from a stream of its own so that it does not shift the other draws.
	if prop != "C15" {
		p.Cfg["slash_remote"] = sim.NewRand(sim.Mix(rs, 0x51A5)).Chance(0.2)
	}
	if prop != "C14" && prop != "C09" {
		p.Cfg["shared_user"] = sim.NewRand(sim.Mix(rs, 0x5a5a)).Chance(0.3)
	}
	if prop == "C14" {
		// 0..3 remotes: replica 0 gets any subset of the hubs (possibly none), the others all of them
		masks := []interface{}{r.Intn(1 << uint(nhub))}
		for i := 1; i < nrep; i++ {
			masks = append(masks, (1<<uint(nhub))-1)
		}
		p.Cfg["remote_masks"] = masks
	}
	if prop == "C05" && r.Chance(0.3) {
		p.Cfg["loaders"] = false // the command path: execenv.LoadRepo passes no clock loaders
	}

	// bias: unequal forks and cross merges need bursts of edits on one replica between syncs
	burstRep, burstLeft := 0, 0
	id := 0
	if prop == "C12" && r.Chance(0.35) {
		// a population in which more than ten bugs share a search token and a label
		n := r.Range(11, 18)
		for i := 0; i < n; i++ {
			id++
			st := sim.Step{Id: id, Op: "newbug", R: 0, D: int64(r.Range(1, 600)), S: genTitle(r) + " kw0", T: genMessage(r), A: r.Intn(8)}
			p.Steps = append(p.Steps, st)
		}
		id++
		p.Steps = append(p.Steps, sim.Step{Id: id, Op: "push", R: 0, D: 1})
		nsteps += n + 1
	}
	for len(p.Steps) < nsteps {
		id++
		st := sim.Step{Id: id, R: r.Intn(nrep), D: int64(r.Range(1, 3600))}
		if r.Chance(0.05) {
			st.D = int64(r.Range(3600, 14*86400))
		}
		if burstLeft > 0 {
			burstLeft--
			st.R = burstRep
			st.Op = "edit"
		} else {
			ws := []int{w.newbug, w.edit, w.commit, w.push, w.pull, w.fetch, w.merge, w.restart, w.identmut, w.remove, w.clockjump, w.partition, w.cachesize, w.delclocks, w.query, w.losecache, w.cli, w.addremote}
			if len(p.Steps) < 2 {
				ws = []int{1}
			}
			st.Op = []string{"newbug", "edit", "commit", "push", "pull", "fetch", "merge", "restart", "identmut", "remove", "clockjump", "partition", "cachesize", "delclocks", "query", "losecache", "cli", "addremote"}[r.Weighted(ws)]
			if st.Op == "edit" && r.Chance(0.15) {
				burstRep, burstLeft = st.R, r.Range(1, 4)
			}
		}
		st.H = r.Intn(nhub)
		st.B = r.Intn(64)
		st.A = r.Intn(8)
		switch st.Op {
		case "newbug":
			st.S = genTitle(r)
			st.T = genMessage(r)
			if r.Chance(0.15) || (prop == "C04" && r.Chance(0.3)) {
				st.L = genFiles(r)
			}
			if r.Chance(0.2) {
				st.M = []string{"origin", word(r)}
				if r.Chance(0.25) {
					st.M[1] = "" // the key is there, with nothing in it
				}
			}
			if r.Chance(0.06) {
				st.K = "invalid"
				st.S = []string{"", "   ", "bad\x07title", "two\nlines"}[r.Intn(4)]
			}
		case "edit":
			n := 1
			if r.Chance(0.4) {
				n = r.Range(2, 6)
			}
			for i := 0; i < n; i++ {
				st.Sub = append(st.Sub, genSub(r, id*100+i))
			}
			st.N = 1
			if r.Chance(0.15) {
				st.N = 0 // leave staged (cache replicas)
			}
		case "push", "pull", "fetch":
			if faults && r.Chance(0.25) {
				if st.Op == "push" {
					st.F = []string{"loss", "lost-ack", "mid-advert", "partial-push:1", "partial-push:2", "half"}[r.Intn(6)]
				} else {
					st.F = []string{"loss", "mid-advert", "mid-pack", "partial-fetch"}[r.Intn(4)]
				}
			}
			// The one-call Pull API returns at the first refused entity and abandons its merge
			// goroutines, which then go on merging a few more entities AFTER Pull has returned
			// (each stage of the channel pipeline holds one result). That tail runs outside the
			// simulator's control, so the one-call API is only drawn where no refusal is expected.
			if st.Op == "pull" && r.Chance(0.5) && !faults && prop != "C09" && prop != "C02" { // (C02 and C09 make identities diverge: refusals are expected there)
				st.K = "pull-api" // use the one-call Pull API instead of fetch + MergeAll
			}
		case "restart":
			st.K = "clean"
			if faults && r.Chance(0.5) && prop != "C11" && prop != "C12" {
				st.K = "dirty" // C11/C12 sessions are cleanly closed (a stale cache file after a kill is C06's)
			}
		case "addremote":
			st.R = 0 // the replica that starts with a subset of the remotes
		case "remove":
			st.K = []string{"", "", "cli", "ident", ""}[r.Intn(5)]
			st.N = r.Intn(64)
			if r.Chance(0.5) {
				st.R = 0 // the replica with the varying number of remotes
			}
		case "cli":
			st.K = []string{"bug-new", "bug-new", "comment", "comment", "title", "close", "open", "label", "rm", "push", "pull", "user-new", "ls", "show", "user", "bridge-config"}[r.Intn(16)]
			st.S = genTitle(r)
			st.T = genMessage(r)
			if st.T == "" {
				st.T = "message"
			}
		case "losecache":
			st.N = r.Range(1, 3) // bit mask: 1 = cache directory, 2 = index directory
		case "delclocks":
			st.N = r.Range(1, 3) // bit mask: 1 = bugs-edit, 2 = bugs-create
		case "clockjump":
			st.D = int64(r.Range(-30*86400, 30*86400))
		case "partition":
			st.N = r.Intn(2)
		case "cachesize":
			// never 0: with a limit of 0 Resolve evicts (and locks for ever) the very entity it returns
			st.N = r.Range(1, 3)
		case "identmut":
			st.K = []string{"name", "email", "login", "avatar", "meta"}[r.Intn(5)]
			st.S = word(r) + " " + word(r)
			st.N = r.Intn(16)
			if prop == "C09" && r.Chance(0.12) {
				st.K = "invalid"
			}
		}
		p.Steps = append(p.Steps, st)
	}
	// closing motif: several replicas merge the same new remote head concurrently. Everybody is
	// synchronised first (so every logical clock stands at the same value), one replica publishes an
	// edit, two others edit the same bug and pull before either pushes: their merge commits join
	// different branches at the same logical time. Drawn from a stream of its own.
	if mr := sim.NewRand(sim.Mix(rs, 0xC0C0)); nrep >= 3 && nhub == 1 && prop != "C14" && prop != "C09" && prop != "C15" && mr.Chance(0.35) {
		add := func(op string, rep int, f func(*sim.Step)) {
			id++
			st := sim.Step{Id: id, Op: op, R: rep, D: int64(mr.Range(1, 600))}
			if f != nil {
				f(&st)
			}
			p.Steps = append(p.Steps, st)
		}
		bugOrd := mr.Intn(64)
		for round := 0; round < 2; round++ {
			for i := 0; i < nrep; i++ {
				add("pull", i, nil)
				add("push", i, nil)
			}
		}
		order := mr.Perm(nrep)
		edit := func(rep int) {
			add("edit", rep, func(st *sim.Step) {
				st.B = bugOrd
				st.N = 1
				st.Sub = []sim.Step{genSub(mr, id*100)}
				st.Sub[0].K, st.Sub[0].S = "comment", "motif "+word(mr)
				st.Sub[0].L = nil
			})
		}
		edit(order[0])
		add("push", order[0], nil)
		edit(order[1])
		edit(order[2])
		add("pull", order[1], nil)
		add("pull", order[2], nil)
		add("push", order[1], nil)
		add("pull", order[2], nil)
		add("push", order[2], nil)
		// in half of the cases the first one then fast-forwards to the others' merge commits and edits on
		// top of them (in the other half the history ends on the concurrent merges: a later edit would
		// repair what a wrongly skipped merge leaves behind)
		if mr.Chance(0.5) {
			add("pull", order[0], nil)
			edit(order[0])
			add("push", order[0], nil)
		}
		p.Cfg["closing_motif"] = true
	}
	// C09 motif: one replica leaves a mutation of an identity uncommitted, another one mutates the
	// same identity, commits and publishes; the first pulls (a fast-forward for what it has stored)
	// and only then commits
	if ir := sim.NewRand(sim.Mix(rs, 0x1D09)); prop == "C09" && nrep >= 2 && nhub == 1 && ir.Chance(0.3) {
		add := func(st sim.Step) {
			id++
			st.Id = id
			if st.D == 0 {
				st.D = 30
			}
			p.Steps = append(p.Steps, st)
		}
		for round := 0; round < 2; round++ {
			for i := 0; i < nrep; i++ {
				add(sim.Step{Op: "pull", R: i})
				add(sim.Step{Op: "push", R: i})
			}
		}
		add(sim.Step{Op: "identmut", R: 0, K: "name", S: "staged " + word(ir), N: 5, T: "lowest-id"})
		add(sim.Step{Op: "identmut", R: 1, K: "email", S: "published " + word(ir), N: 1, T: "lowest-id"})
		add(sim.Step{Op: "push", R: 1})
		add(sim.Step{Op: "pull", R: 0})
		add(sim.Step{Op: "commit", R: 0})
		add(sim.Step{Op: "push", R: 0})
	}
	// second closing motif: something published by one replica is fetched, but not merged, by
	// another one, and nothing else happens on the remote afterwards: the synchronisation that
	// follows has to merge what is already in the remote-tracking refs
	if fr := sim.NewRand(sim.Mix(rs, 0xFE7C)); nrep >= 2 && nhub == 1 && !faults && prop != "C14" && prop != "C09" && prop != "C15" && p.Cfg["closing_motif"] == nil && fr.Chance(0.3) {
		a, b := 0, 1
		if fr.Chance(0.5) {
			a, b = 1, 0
		}
		for round := 0; round < 2; round++ {
			for i := 0; i < nrep; i++ {
				id++
				p.Steps = append(p.Steps, sim.Step{Id: id, Op: "pull", R: i, D: 5})
				id++
				p.Steps = append(p.Steps, sim.Step{Id: id, Op: "push", R: i, D: 5})
			}
		}
		id++
		ed := sim.Step{Id: id, Op: "edit", R: a, D: 60, B: fr.Intn(64), N: 1}
		ed.Sub = []sim.Step{genSub(fr, id*100)}
		ed.Sub[0].K, ed.Sub[0].S, ed.Sub[0].L = "comment", "fetched but not merged "+word(fr), nil
		p.Steps = append(p.Steps, ed)
		id++
		p.Steps = append(p.Steps, sim.Step{Id: id, Op: "push", R: a, D: 5})
		id++
		p.Steps = append(p.Steps, sim.Step{Id: id, Op: "fetch", R: b, D: 5})
		p.Cfg["closing_motif"] = "fetch-only"
	}
	if prop == "C15" && sim.NewRand(sim.Mix(rs, 0xC15E)).Chance(0.3) {
		// git-bug takes itself out of the host repository again
		id++
		p.Steps = append(p.Steps, sim.Step{Id: id, Op: "wipe", R: sim.NewRand(sim.Mix(rs, 0xC15F)).Intn(nrep), D: 10})
	}
	if prop == "C14" && r.Chance(0.3) {
		id++
		p.Steps = append(p.Steps, sim.Step{Id: id, Op: "wipe", R: r.Intn(nrep), D: 10, N: r.Intn(2)})
	}
	// local I/O errors that last for a while (a full disk, a directory that cannot be renamed
	// into): in half of the fault runs, some of the steps that write locally meet one, starting at
	// their k-th storage mutation and lasting n mutations. A stream of its own: the plans are
	// otherwise what they were.
	switch prop {
	case "C01", "C02", "C04", "C05", "C09", "C15":
		// (C10, C11 and C12 quantify over sessions and inputs, not over storage failures: what the
		// cache must still serve after an error between a git write and its own update is not
		// stated, and their oracles compare against stored data)
		er := sim.NewRand(sim.Mix(rs, 0x10E77))
		if faults && er.Chance(0.5) {
			p.Cfg["ioerr"] = true
			for i := range p.Steps {
				st := &p.Steps[i]
				switch st.Op {
				case "newbug", "edit", "commit", "identmut", "remove", "pull", "merge":
					if st.F == "" && st.K != "pull-api" && er.Chance(0.12) {
						class := []string{"any", "any", "nospace", "rename", "read", "read"}[er.Intn(6)]
						k, n := er.Intn(14), []int{1, 1, 2, 3, 8, 1000}[er.Intn(6)]
						if class == "read" {
							k, n = er.Intn(40), []int{1, 1, 2, 3}[er.Intn(4)] // an object or a ref that cannot be read just now
						}
						st.F = fmt.Sprintf("ioerr:%s:%d:%d", class, k, n)
					}
				}
			}
		}
	}
	if prop == "C11" {
		// the one storage failure under which "the cache agrees with a rebuild" needs no
		// interpretation: an action during which the disk refuses every write. Nothing can have
		// changed in git, so what the cache serves afterwards must be what it served before.
		er := sim.NewRand(sim.Mix(rs, 0x10E78))
		if er.Chance(0.5) {
			p.Cfg["ioerr"] = true
			for i := range p.Steps {
				st := &p.Steps[i]
				switch st.Op {
				case "newbug", "edit", "commit", "identmut", "remove":
					if st.F == "" && er.Chance(0.1) {
						st.F = "ioerr:any:0:1000"
					}
				}
			}
		}
	}
	return p
}

func genSub(r *sim.Rand, id int) sim.Step {
	s := sim.Step{Id: id, A: r.Intn(8), N: r.Intn(16)}
	kinds := []string{"comment", "comment", "editcomment", "title", "status", "label", "label", "meta", "noop", "editcomment-unknown", "editcomment-noncomment", "forcelabel", "invalid"}
	ws := []int{20, 10, 14, 12, 12, 14, 6, 8, 4, 3, 3, 5, 3}
	s.K = kinds[r.Weighted(ws)]
	s.Op = "op"
	switch s.K {
	case "comment", "editcomment", "editcomment-unknown", "editcomment-noncomment":
		s.S = genMessage(r)
		if r.Chance(0.2) {
			s.L = genFiles(r)
		}
	case "title":
		s.S = genTitle(r)
	case "status":
		s.S = []string{"open", "closed"}[r.Intn(2)]
	case "label", "forcelabel":
		s.L = genLabels(r, r.Intn(3))
		s.M = genLabels(r, r.Intn(3))
		if len(s.L)+len(s.M) == 0 {
			s.L = genLabels(r, 1)
		}
	case "meta":
		n := r.Range(1, 4)
		for i := 0; i < n; i++ {
			s.L = append(s.L, []string{"k1", "k2", "origin", "github-id"}[r.Intn(4)], word(r))
		}
		if r.Chance(0.1) {
			for i := 0; i < 30; i++ {
				s.L = append(s.L, fmt.Sprintf("key%d", i), word(r))
			}
		}
	case "invalid":
		s.S = []string{"title:", "title:bad\x00", "comment:bad\x07char", "label: ", "label:two\nlines"}[r.Intn(5)]
	}
	if r.Chance(0.1) {
		s.T = "md:" + word(r) // operation-level metadata
	}
	return s
}

// Simplify proposes simpler variants of a step for the shrinker.
func (e *Engine) Simplify(s sim.Step) []sim.Step {
	var out []sim.Step
	if s.F != "" {
		c := s
		c.F = ""
		out = append(out, c)
	}
	if len(s.S) > 8 {
		c := s
		c.S = "t"
		out = append(out, c)
	}
	if len(s.T) > 8 {
		c := s
		c.T = "m"
		out = append(out, c)
	}
	if s.D > 60 || s.D < 0 {
		c := s
		c.D = 1
		out = append(out, c)
	}
	if len(s.L) > 0 && s.Op == "newbug" {
		c := s
		c.L = nil
		out = append(out, c)
	}
	for i, sub := range s.Sub {
		if len(sub.S) > 8 || len(sub.L) > 0 && sub.K == "comment" || sub.T != "" {
			c := s
			c.Sub = append([]sim.Step{}, s.Sub...)
			cs := sub
			if len(cs.S) > 8 {
				cs.S = "m"
			}
			if cs.K == "comment" {
				cs.L = nil
			}
			cs.T = ""
			c.Sub[i] = cs
			out = append(out, c)
		}
	}
	return out
}
