#!/bin/bash
# tools/try_mutant.sh <patch.diff> <prop> [budget_s]  : apply to /repo, run the quick check, revert. Prints verdict.
P=$1; PROP=$2; B=${3:-20}
cd /repo || exit 2
git diff --quiet || { echo "repo dirty, refusing"; exit 2; }
git apply "$P" || { echo "patch does not apply"; exit 2; }
cd /verif
VERIF_EVIDENCE_DIR=/tmp/mutant-evidence VERIF_BUDGET_S=$B ./check $PROP > /tmp/mutant.$$.log 2>&1; rc=$?
git -C /repo checkout -- .
echo "rc=$rc"; grep -a -E "^VIOLATION|^  kind=|^OK|harness|KNOWN" /tmp/mutant.$$.log | cut -c1-400
rm -f /tmp/mutant.$$.log
exit $rc
