#!/bin/bash
# tools/verify_seeded2.sh <ID> <test regex> <pkgs...> : demo files must already be in /tmp/wt-<ID>
ID=$1; RE=$2; shift 2
export GOFLAGS=-mod=mod GOPROXY=off GOSUMDB=off GOTOOLCHAIN=local
cd /tmp/wt-$ID || exit 2
git checkout -q -- .
go test -vet=off -count=1 -run "$RE" "$@" > /tmp/vs.$ID.clean.log 2>&1; a=$?
git apply /tmp/seeded-out/$ID/patch.diff || exit 2
go build ./... >/dev/null 2>&1; b=$?
go test -vet=off -count=1 -run "$RE" "$@" > /tmp/vs.$ID.mut.log 2>&1; c=$?
git checkout -q -- .
echo "$ID without_patch_rc=$a build_with_patch_rc=$b with_patch_rc=$c"
