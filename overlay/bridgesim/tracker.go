// Package bridgesim simulates a GitLab tracker behind an in-process http.RoundTripper (the
// REST endpoints the importer calls, GitLab-like behaviour, pagination) that can fail any
// request in several ways, and runs the real bridge/core + bridge/gitlab importer with the
// real go-gitlab client against it, in rounds, with the tracker growing in between. C16.
package bridgesim

import (
	"context"
	"encoding/json"
	"fmt"
	"net/http"
	"sort"
	"strconv"
	"strings"
	"sync"
	"time"

	"github.com/MichaelMure/git-bug/zzverif/sim"
)

type user struct {
	ID       int
	Username string
	Name     string
	Deleted  bool
}

type note struct {
	ID       int
	Body     string
	AuthorID int
	System   bool
	Created  int64
	Updated  int64
}

type labelEv struct {
	ID      int
	Action  string
	Label   string
	UserID  int
	Created int64
}

type stateEv struct {
	ID      int
	State   string
	UserID  int
	Created int64
}

type issue struct {
	Actions  int // tracker-side actions on this issue so far (creation included)
	IID      int
	Title    string
	Desc     string
	AuthorID int
	Created  int64
	Updated  int64
	Notes    []note
	Labels   []labelEv
	States   []stateEv
}

type tracker struct {
	Users     map[int]*user
	Issues    []*issue
	Version   int // bumped by every change
	Clock     int64
	nextNote  int
	nextLabel int
	nextState int
}

var hostile = []string{"plain text", "with a tab\there", "trailing blanks   ", "multi\nline\r\nbody", "control \u0007 char", "日本語 and émoji 🙂",
	strings.Repeat("long ", 300), "", "**markdown** `code`", "null byte \u0000 inside"}

func (t *tracker) tick(r *sim.Rand) int64 {
	t.Clock += int64(r.Range(2, 4000))
	return t.Clock
}

func newTracker(r *sim.Rand, overlap bool) *tracker {
	t := &tracker{Users: map[int]*user{}, Clock: 1_600_000_000, nextNote: 1000, nextLabel: 5000, nextState: 9000}
	if overlap {
		// on a real instance notes, label events and state events have separate id sequences that can overlap
		t.nextNote, t.nextLabel, t.nextState = 100, 100, 100
	}
	for i := 1; i <= 3; i++ {
		t.Users[i] = &user{ID: i, Username: fmt.Sprintf("user%d", i), Name: fmt.Sprintf("User Number %d", i)}
	}
	return t
}

// grow applies n random tracker-side actions.
func (t *tracker) grow(r *sim.Rand, n int) {
	for k := 0; k < n; k++ {
		uid := t.liveUser(r)
		t.Version++
		if len(t.Issues) == 0 || r.Chance(0.2) {
			now := t.tick(r)
			title := "issue " + strconv.Itoa(len(t.Issues)+1) + " " + []string{"crash", "typo", "slow", "日本"}[r.Intn(4)]
			t.Issues = append(t.Issues, &issue{IID: len(t.Issues) + 1, Title: title, Desc: hostile[r.Intn(len(hostile))], AuthorID: uid, Created: now, Updated: now, Actions: 1})
			continue
		}
		is := t.Issues[r.Intn(len(t.Issues))]
		now := t.tick(r)
		is.Updated = now
		is.Actions++
		switch r.Intn(8) {
		case 0, 1:
			t.nextNote++
			is.Notes = append(is.Notes, note{ID: t.nextNote, Body: "comment " + hostile[r.Intn(len(hostile))], AuthorID: uid, Created: now, Updated: now})
		case 2:
			// edit an existing comment
			var idx []int
			for i, n := range is.Notes {
				if !n.System {
					idx = append(idx, i)
				}
			}
			if len(idx) > 0 {
				i := idx[r.Intn(len(idx))]
				is.Notes[i].Body = "edited " + hostile[r.Intn(len(hostile))]
				is.Notes[i].Updated = now
			}
		case 3:
			newTitle := "retitled " + strconv.Itoa(r.Intn(1000))
			t.nextNote++
			is.Notes = append(is.Notes, note{ID: t.nextNote, Body: fmt.Sprintf("changed title from **%s** to **%s**", is.Title, newTitle), AuthorID: uid, System: true, Created: now, Updated: now})
			is.Title = newTitle
		case 4:
			is.Desc = "new description " + hostile[r.Intn(len(hostile))]
			t.nextNote++
			is.Notes = append(is.Notes, note{ID: t.nextNote, Body: "changed the description", AuthorID: uid, System: true, Created: now, Updated: now})
		case 5:
			t.nextLabel++
			is.Labels = append(is.Labels, labelEv{ID: t.nextLabel, Action: "add", Label: []string{"bug", "ui", "needs triage", "prio::high"}[r.Intn(4)], UserID: uid, Created: now})
		case 6:
			if cur := is.currentLabels(); len(cur) > 0 {
				t.nextLabel++
				is.Labels = append(is.Labels, labelEv{ID: t.nextLabel, Action: "remove", Label: cur[r.Intn(len(cur))], UserID: uid, Created: now})
			}
		case 7:
			t.nextState++
			st := "closed"
			if is.state() == "closed" {
				st = "reopened"
			}
			is.States = append(is.States, stateEv{ID: t.nextState, State: st, UserID: uid, Created: now})
		}
	}
}

const ghostID = 99

func (t *tracker) liveUser(r *sim.Rand) int {
	var ids []int
	for id, u := range t.Users {
		if !u.Deleted && id != ghostID {
			ids = append(ids, id)
		}
	}
	sort.Ints(ids)
	return ids[r.Intn(len(ids))]
}

// deleteUser does what GitLab does: the account goes away and its contributions are moved to
// the Ghost User. At least one live user stays.
func (t *tracker) deleteUser(ord int) bool {
	var ids []int
	for id, u := range t.Users {
		if !u.Deleted && id != ghostID {
			ids = append(ids, id)
		}
	}
	if len(ids) < 2 {
		return false
	}
	sort.Ints(ids)
	id := ids[ord%len(ids)]
	t.Users[id].Deleted = true
	t.Version++
	if _, ok := t.Users[ghostID]; !ok {
		t.Users[ghostID] = &user{ID: ghostID, Username: "ghost", Name: "Ghost User"}
	}
	for _, is := range t.Issues {
		if is.AuthorID == id {
			is.AuthorID = ghostID
		}
		for i := range is.Notes {
			if is.Notes[i].AuthorID == id {
				is.Notes[i].AuthorID = ghostID
			}
		}
		for i := range is.Labels {
			if is.Labels[i].UserID == id {
				is.Labels[i].UserID = ghostID
			}
		}
		for i := range is.States {
			if is.States[i].UserID == id {
				is.States[i].UserID = ghostID
			}
		}
	}
	return true
}

func (is *issue) currentLabels() []string {
	set := map[string]bool{}
	for _, e := range is.Labels {
		if e.Action == "add" {
			set[e.Label] = true
		} else {
			delete(set, e.Label)
		}
	}
	var out []string
	for l := range set {
		out = append(out, l)
	}
	sort.Strings(out)
	return out
}

func (is *issue) state() string {
	if len(is.States) == 0 {
		return "opened"
	}
	if is.States[len(is.States)-1].State == "closed" {
		return "closed"
	}
	return "opened"
}

func ts(unix int64) string { return time.Unix(unix, 0).UTC().Format(time.RFC3339) }

func (t *tracker) userJSON(id int) map[string]interface{} {
	u := t.Users[id]
	return map[string]interface{}{"id": u.ID, "username": u.Username, "name": u.Name, "state": "active", "avatar_url": "https://gitlab.example.org/a/" + u.Username + ".png", "public_email": ""}
}

// ---- the REST façade ------------------------------------------------------------------------

type fault struct {
	Key  string // "<path>?page=<n>" the fault applies to
	Kind string // transport | 500-once | 500-persistent | 404 | bad-json | truncated | cancel | midgrow
	Grow func() // midgrow: the tracker changes while the round is under way
}

type server struct {
	mu       sync.Mutex
	t        *tracker
	pageSize int
	Fault    *fault
	Fired    map[string]int
	Requests []string // keys seen in this round, in arrival order
	seen     map[string]int
	// cancel and midgrow act from one request on, in a canonical order of the requests of a
	// round (position of the issue in the listing, page, stream) instead of arrival order: the
	// importer fetches its three event streams concurrently and arrival order is Go's to decide
	pre     *tracker // midgrow: the tracker as it was before it changed
	listed  []int    // iids of the listing of this round, in order (from the first list request)
	haveCut bool
	cut     [3]int
}

type errTransport struct{}

func (errTransport) Error() string   { return "simulated: connection reset by peer" }
func (errTransport) Timeout() bool   { return false }
func (errTransport) Temporary() bool { return false }

func (s *server) resetRound(f *fault) {
	s.mu.Lock()
	s.Fault = f
	s.Requests = nil
	s.seen = map[string]int{}
	s.pre, s.listed, s.haveCut = nil, nil, false
	if f != nil && f.Kind == "midgrow" && f.Grow != nil {
		s.pre = s.t.clone()
		f.Grow()
	}
	s.mu.Unlock()
}

func (t *tracker) clone() *tracker {
	c := *t
	c.Users = map[int]*user{}
	for k, u := range t.Users {
		uc := *u
		c.Users[k] = &uc
	}
	c.Issues = nil
	for _, is := range t.Issues {
		ic := *is
		ic.Notes = append([]note(nil), is.Notes...)
		ic.Labels = append([]labelEv(nil), is.Labels...)
		ic.States = append([]stateEv(nil), is.States...)
		c.Issues = append(c.Issues, &ic)
	}
	return &c
}

func updatedAfter(req *http.Request) int64 {
	return updatedAfterString(req.URL.Query().Get("updated_after"))
}

func updatedAfterString(v string) int64 {
	if v != "" {
		if tm, err := time.Parse(time.RFC3339Nano, v); err == nil {
			return tm.Unix()
		}
	}
	return 0
}

// position of a request in the canonical order of a round; ok=false for requests that have
// none (user look-ups: they neither change with the tracker nor carry the context).
func (s *server) position(path string, page int) (pos [3]int, ok bool) {
	parts := strings.Split(strings.Trim(path, "/"), "/")
	switch {
	case len(parts) == 3 && parts[2] == "issues":
		return [3]int{(page - 1) * s.pageSize, 0, 0}, true
	case len(parts) == 5 && parts[2] == "issues":
		iid, _ := strconv.Atoi(parts[3])
		idx := 1 << 30
		for i, x := range s.listed {
			if x == iid {
				idx = i
			}
		}
		stream := map[string]int{"notes": 1, "resource_label_events": 2, "resource_state_events": 3}[parts[4]]
		return [3]int{idx, page, stream}, true
	}
	return pos, false
}

func posLess(a, b [3]int) bool {
	for i := 0; i < 3; i++ {
		if a[i] != b[i] {
			return a[i] < b[i]
		}
	}
	return false
}

func jsonResponse(req *http.Request, status int, body []byte, hdr map[string]string) *http.Response {
	h := http.Header{}
	h.Set("Content-Type", "application/json")
	for k, v := range hdr {
		h.Set(k, v)
	}
	return &http.Response{StatusCode: status, Status: fmt.Sprintf("%d %s", status, http.StatusText(status)), Header: h,
		Body: readCloser{strings.NewReader(string(body))}, Request: req, ProtoMajor: 1, ProtoMinor: 1, ContentLength: int64(len(body))}
}

type readCloser struct{ *strings.Reader }

func (readCloser) Close() error { return nil }

func (s *server) RoundTrip(req *http.Request) (*http.Response, error) {
	s.mu.Lock()
	defer s.mu.Unlock()
	path := strings.TrimPrefix(req.URL.Path, "/api/v4")
	page := 1
	if p := req.URL.Query().Get("page"); p != "" {
		page, _ = strconv.Atoi(p)
		if page < 1 {
			page = 1
		}
	}
	key := fmt.Sprintf("%s?page=%d", path, page)
	s.seen[key]++
	if s.seen[key] == 1 {
		s.Requests = append(s.Requests, key)
	}
	if err := req.Context().Err(); err != nil {
		return nil, err
	}
	t := s.t
	if s.Fault != nil && (s.Fault.Kind == "midgrow" || s.Fault.Kind == "cancel") {
		if s.listed == nil && strings.HasSuffix(path, "/issues") {
			src := s.t
			if s.pre != nil {
				src = s.pre
			}
			after := updatedAfter(req)
			s.listed = []int{}
			for _, is := range src.Issues {
				if is.Updated >= after {
					s.listed = append(s.listed, is.IID)
				}
			}
			fk := s.Fault.Key
			fpage := 1
			if i := strings.Index(fk, "?page="); i >= 0 {
				fpage, _ = strconv.Atoi(fk[i+6:])
				fk = fk[:i]
			}
			s.cut, s.haveCut = s.position(fk, fpage)
		}
		pos, ok := s.position(path, page)
		atOrAfter := ok && s.haveCut && !posLess(pos, s.cut)
		if atOrAfter {
			s.Fired[s.Fault.Kind]++
		}
		switch {
		case s.Fault.Kind == "cancel" && atOrAfter:
			return nil, context.Canceled
		case s.Fault.Kind == "midgrow" && !atOrAfter && s.pre != nil && ok:
			t = s.pre
		}
	} else if s.Fault != nil && s.Fault.Key == key {
		kind := s.Fault.Kind
		fire := s.seen[key] == 1 || kind == "500-persistent"
		if fire {
			s.Fired[kind]++
			switch kind {
			case "transport":
				return nil, errTransport{}
			case "500-once", "500-persistent":
				return jsonResponse(req, 500, []byte(`{"message":"500 Internal Server Error"}`), nil), nil
			case "404":
				return jsonResponse(req, 404, []byte(`{"message":"404 Not Found"}`), nil), nil
			case "bad-json":
				return jsonResponse(req, 200, []byte(`[{"id": "this is not`), map[string]string{"X-Page": "1", "X-Total-Pages": "1"}), nil
			}
		}
	}
	status, body, hdr := s.serve(t, path, req, page)
	if s.Fault != nil && s.Fault.Key == key && s.Fault.Kind == "truncated" && s.seen[key] == 1 && len(body) > 4 {
		s.Fired["truncated"]++
		body = body[:len(body)/2]
	}
	return jsonResponse(req, status, body, hdr), nil
}

func (s *server) paginate(n, page int) (lo, hi int, hdr map[string]string) {
	ps := s.pageSize
	total := (n + ps - 1) / ps
	if total == 0 {
		total = 1
	}
	lo = (page - 1) * ps
	if lo > n {
		lo = n
	}
	hi = lo + ps
	if hi > n {
		hi = n
	}
	next := ""
	if page < total {
		next = strconv.Itoa(page + 1)
	}
	hdr = map[string]string{"X-Page": strconv.Itoa(page), "X-Total-Pages": strconv.Itoa(total), "X-Next-Page": next, "X-Per-Page": strconv.Itoa(ps), "X-Total": strconv.Itoa(n)}
	return
}

func (s *server) serve(t *tracker, path string, req *http.Request, page int) (int, []byte, map[string]string) {
	parts := strings.Split(strings.Trim(path, "/"), "/")
	notFound := func() (int, []byte, map[string]string) { return 404, []byte(`{"message":"404 Not Found"}`), nil }
	switch {
	case len(parts) == 2 && parts[0] == "users":
		id, _ := strconv.Atoi(parts[1])
		u, ok := t.Users[id]
		if !ok || u.Deleted {
			return notFound()
		}
		b, _ := json.Marshal(t.userJSON(id))
		return 200, b, nil
	case len(parts) == 3 && parts[0] == "projects" && parts[2] == "issues":
		after := updatedAfter(req)
		var sel []*issue
		for _, is := range t.Issues {
			if is.Updated >= after {
				sel = append(sel, is)
			}
		}
		lo, hi, hdr := s.paginate(len(sel), page)
		out := []map[string]interface{}{}
		for _, is := range sel[lo:hi] {
			out = append(out, map[string]interface{}{
				"id": 70000 + is.IID, "iid": is.IID, "project_id": 42, "title": is.Title, "description": is.Desc, "state": is.state(),
				"created_at": ts(is.Created), "updated_at": ts(is.Updated), "author": t.userJSON(is.AuthorID), "labels": is.currentLabels(),
				"web_url": fmt.Sprintf("https://gitlab.example.org/group/project/-/issues/%d", is.IID),
			})
		}
		b, _ := json.Marshal(out)
		return 200, b, hdr
	case len(parts) == 5 && parts[0] == "projects" && parts[2] == "issues":
		iid, _ := strconv.Atoi(parts[3])
		var is *issue
		for _, x := range t.Issues {
			if x.IID == iid {
				is = x
			}
		}
		if is == nil {
			return notFound()
		}
		switch parts[4] {
		case "notes":
			lo, hi, hdr := s.paginate(len(is.Notes), page)
			out := []map[string]interface{}{}
			for _, n := range is.Notes[lo:hi] {
				out = append(out, map[string]interface{}{"id": n.ID, "body": n.Body, "author": t.userJSON(n.AuthorID), "system": n.System,
					"created_at": ts(n.Created), "updated_at": ts(n.Updated), "noteable_id": 70000 + is.IID, "noteable_iid": is.IID, "noteable_type": "Issue"})
			}
			b, _ := json.Marshal(out)
			return 200, b, hdr
		case "resource_label_events":
			lo, hi, hdr := s.paginate(len(is.Labels), page)
			out := []map[string]interface{}{}
			for _, e := range is.Labels[lo:hi] {
				out = append(out, map[string]interface{}{"id": e.ID, "action": e.Action, "created_at": ts(e.Created), "user": t.userJSON(e.UserID),
					"resource_type": "Issue", "resource_id": 70000 + is.IID, "label": map[string]interface{}{"id": len(e.Label), "name": e.Label, "color": "#fff"}})
			}
			b, _ := json.Marshal(out)
			return 200, b, hdr
		case "resource_state_events":
			lo, hi, hdr := s.paginate(len(is.States), page)
			out := []map[string]interface{}{}
			for _, e := range is.States[lo:hi] {
				out = append(out, map[string]interface{}{"id": e.ID, "state": e.State, "created_at": ts(e.Created), "user": t.userJSON(e.UserID),
					"resource_type": "Issue", "resource_id": 70000 + is.IID})
			}
			b, _ := json.Marshal(out)
			return 200, b, hdr
		}
	}
	return notFound()
}

// ---- the interfaces the engine works with (GitLab REST and GitHub GraphQL trackers) ------------

type trackerModel interface {
	Grow(r *sim.Rand, n int)
	DeleteUser(ord int) bool
	Expected() map[string]bugState
	Ver() int
	Clk() *int64
	NUsers() int
	Collision() string
	ActionsOf() map[string]int
	// metadata keys under which the importer stores the tracker's id of an event and of a user
	MetaKeys() (event, user string)
}

type endpoint interface {
	http.RoundTripper
	resetRound(f *fault)
	round() (requests []string, fired int)
	faultKey(st *sim.Step) string
}

func (t *tracker) Grow(r *sim.Rand, n int)       { t.grow(r, n) }
func (t *tracker) DeleteUser(ord int) bool       { return t.deleteUser(ord) }
func (t *tracker) Expected() map[string]bugState { return t.expected() }
func (t *tracker) Ver() int                      { return t.Version }
func (t *tracker) Clk() *int64                   { return &t.Clock }
func (t *tracker) NUsers() int                   { return len(t.Users) }
func (t *tracker) Collision() string {
	if c := t.collision(); c != "" {
		return "with a tracker id shared between GitLab's separate id sequences (" + c + ")"
	}
	return ""
}
func (t *tracker) MetaKeys() (string, string)    { return "gitlab-id", "gitlab-id" }
func (t *tracker) ActionsOf() map[string]int {
	out := map[string]int{}
	for _, is := range t.Issues {
		out[fmt.Sprint(is.IID)] = is.Actions
	}
	return out
}

func (s *server) round() ([]string, int) {
	s.mu.Lock()
	defer s.mu.Unlock()
	n := 0
	for _, v := range s.Fired {
		n += v
	}
	return append([]string(nil), s.Requests...), n
}

func (s *server) faultKey(st *sim.Step) string {
	t := s.t
	ps := s.pageSize
	pages := func(n int) int {
		p := (n + ps - 1) / ps
		if p < 1 {
			p = 1
		}
		return p
	}
	if len(t.Issues) == 0 {
		return "/projects/" + projectID + "/issues?page=1"
	}
	is := t.Issues[st.B%len(t.Issues)]
	switch st.K {
	case "issues":
		return fmt.Sprintf("/projects/%s/issues?page=%d", projectID, st.N%pages(len(t.Issues))+1)
	case "notes":
		return fmt.Sprintf("/projects/%s/issues/%d/notes?page=%d", projectID, is.IID, st.N%pages(len(is.Notes))+1)
	case "labels":
		return fmt.Sprintf("/projects/%s/issues/%d/resource_label_events?page=%d", projectID, is.IID, st.N%pages(len(is.Labels))+1)
	case "states":
		return fmt.Sprintf("/projects/%s/issues/%d/resource_state_events?page=%d", projectID, is.IID, st.N%pages(len(is.States))+1)
	default:
		var ids []int
		for id := range t.Users {
			ids = append(ids, id)
		}
		sort.Ints(ids)
		return fmt.Sprintf("/users/%d?page=1", ids[st.B%len(ids)])
	}
}
