module verif/instrument

go 1.21
