package sim

import (
	"crypto/sha256"
	"errors"
	"fmt"
	"os"
	"path/filepath"
	"sort"
	"regexp"
	"strings"
	"sync"

	"github.com/ProtonMail/go-crypto/openpgp"
	"github.com/go-git/go-billy/v5"

	"github.com/MichaelMure/git-bug/repository"
	"github.com/MichaelMure/git-bug/util/lamport"
	"github.com/MichaelMure/git-bug/zzverif/verifrtfs"
)

var ErrFrozen = errors.New("simulated crash: process is dead, I/O frozen")
var ErrInjected = errors.New("simulated I/O error")
var ErrReadOnly = errors.New("observer handle: mutation refused")

// EventLog hashes every storage call and step boundary; optionally keeps the text.
type EventLog struct {
	mu    sync.Mutex
	Keep  bool
	Lines []string
	cur   []string
	notes []string
	sum   [32]byte
	N     int
}

func (l *EventLog) Add(format string, a ...interface{}) {
	if l == nil {
		return
	}
	s := fmt.Sprintf(format, a...)
	l.mu.Lock()
	l.cur = append(l.cur, s)
	l.mu.Unlock()
}

// Note records a line that is kept in the trace but not hashed (error texts produced
// by git-bug can depend on Go map iteration order).
func (l *EventLog) Note(format string, a ...interface{}) {
	if l == nil || !l.Keep {
		return
	}
	s := fmt.Sprintf(format, a...)
	l.mu.Lock()
	l.notes = append(l.notes, s)
	l.mu.Unlock()
}

// EndStep folds the lines of the step into the running hash. Steps in which git-bug
// runs goroutines of its own have their lines sorted first (their effects commute).
func (l *EventLog) EndStep(label string, sorted bool) {
	if l == nil {
		return
	}
	l.mu.Lock()
	defer l.mu.Unlock()
	if !sorted {
		// git-bug iterates over Go maps when it witnesses clocks (entity/dag read: "for _, opp
		// := range oppMap"), so the ORDER of the witness calls of one read is random while their
		// effect (an atomic maximum) is not: a step is hashed as the multiset of its calls.
		sort.Strings(l.cur)
	}
	if sorted {
		// git-bug ran goroutines of its own inside this step (cache build: the bug builder
		// resolves authors through the identity sub-cache that is being built at the same
		// time, so how often an identity is read from git depends on their race). Their
		// effects commute: the step is hashed as the SET of its storage calls.
		sort.Strings(l.cur)
		out := l.cur[:0]
		for i, s := range l.cur {
			if i == 0 || s != l.cur[i-1] {
				out = append(out, s)
			}
		}
		l.cur = out
	}
	h := sha256.New()
	h.Write(l.sum[:])
	h.Write([]byte(label))
	h.Write([]byte{0})
	for _, s := range l.cur {
		h.Write([]byte(s))
		h.Write([]byte{'\n'})
	}
	copy(l.sum[:], h.Sum(nil))
	l.N += len(l.cur) + 1
	if l.Keep {
		l.Lines = append(l.Lines, "## "+label)
		l.Lines = append(l.Lines, l.cur...)
		for _, n := range l.notes {
			l.Lines = append(l.Lines, "   # "+n)
		}
	}
	l.notes = l.notes[:0]
	l.cur = l.cur[:0]
}

func (l *EventLog) Hash() string {
	l.mu.Lock()
	defer l.mu.Unlock()
	return fmt.Sprintf("%x", l.sum[:8])
}

// Control is the fault and accounting state of one incarnation of a replica.
type Control struct {
	Name string
	Log  *EventLog
	// Unhashed: the calls are kept in the trace but do not enter the run hash (engines whose
	// subject runs goroutines of its own across the very calls a fault is placed at)
	Unhashed bool

	mu       sync.Mutex
	Calls    int
	Muts     int
	Frozen   bool
	Crashed  bool
	CrashAt  int // mutation index that freezes instead of executing; <0 never
	Torn     string // "", "old", "new", "empty", "prefix:<n>"
	ErrAtMut map[int]bool // mutation indices that fail once with ErrInjected (not executed)
	ErrAtRead map[int]bool // read-call indices (separate counter) that fail once
	Reads    int
	ErrFired int
	// an I/O error that lasts: the mutations numbered ErrFrom .. ErrFrom+ErrLen-1 whose kind is of
	// ErrClass fail with ErrInjected instead of executing ("any"; "nospace": everything that adds
	// data, removals and renames go through; "rename": renames only)
	ErrFrom, ErrLen int
	ErrClass        string
	// ErrMatch, when set, names the failing mutation by what it is instead of by its number: the
	// ErrOcc-th mutation whose "kind detail" matches (for actions whose calls come from several
	// goroutines, where only the order within one kind of call is a function of the plan)
	ErrMatch *regexp.Regexp
	ErrOcc   int
	errSeen  int
	ReadOnly bool
	RoBreach []string
	Perm     *Rand
	KeepTrace bool
	Trace    []string
	TornDone string
	// CrashEvent, when set, names the crash point by what it is instead of by its index: the
	// CrashOcc-th mutation whose normalised form (NormEvent) equals it. Indices shift between
	// executions when the subject writes a clock file only if the value it meets is higher and
	// meets the values in Go map order.
	CrashEvent string
	CrashOcc   int
	evCount    map[string]int
	// a slow or stalled process: the first call whose kind is StallKind parks (Stalled is closed)
	// until Release is closed, then goes on as if nothing had happened
	StallKind string
	Stalled   chan struct{}
	Release   chan struct{}
}

// stall parks the caller if this is the call the simulator wants to hold. Never under c.mu.
func (c *Control) stall(kind string) {
	c.mu.Lock()
	hit := c.StallKind != "" && c.StallKind == kind && c.Stalled != nil
	var st, rel chan struct{}
	if hit {
		st, rel = c.Stalled, c.Release
		c.StallKind = ""
	}
	c.mu.Unlock()
	if hit {
		close(st)
		<-rel
	}
}

func (c *Control) logf(format string, a ...interface{}) {
	if c.Unhashed {
		c.Log.Note(format, a...)
		return
	}
	c.Log.Add(format, a...)
}

func NewControl(name string, log *EventLog) *Control {
	return &Control{Name: name, Log: log, CrashAt: -1}
}

// Freeze kills the incarnation now.
func (c *Control) Freeze() { c.mu.Lock(); c.Frozen = true; c.mu.Unlock() }

func (c *Control) IsFrozen() bool { c.mu.Lock(); defer c.mu.Unlock(); return c.Frozen }

func (c *Control) MutCount() int { c.mu.Lock(); defer c.mu.Unlock(); return c.Muts }

// gate accounts for one call. crash=true means: this mutation is the crash point and
// the caller must apply torn semantics (if any) and return ErrFrozen.
func (c *Control) gate(kind string, mut bool, detail string) (crash bool, err error) {
	return c.gate2(kind, mut, detail, detail)
}

// gate2: detail goes to the hashed event log, traceDetail to the mutation trace.
func (c *Control) gate2(kind string, mut bool, detail, traceDetail string) (crash bool, err error) {
	c.mu.Lock()
	defer c.mu.Unlock()
	if c.Frozen {
		return false, ErrFrozen
	}
	c.Calls++
	if !mut {
		idx := c.Reads
		c.Reads++
		if c.ErrAtRead[idx] || (c.ErrLen > 0 && c.ErrClass == "read" && idx >= c.ErrFrom && idx < c.ErrFrom+c.ErrLen) {
			c.ErrFired++
			c.logf("%s %s(%s) -> injected error", c.Name, kind, detail)
			return false, ErrInjected
		}
		c.logf("%s %s(%s)", c.Name, kind, detail)
		return false, nil
	}
	idx := c.Muts
	c.Muts++
	if c.KeepTrace {
		c.Trace = append(c.Trace, kind+" "+traceDetail)
	}
	if c.ReadOnly {
		c.RoBreach = append(c.RoBreach, kind+" "+detail)
		return false, ErrReadOnly
	}
	hit := idx == c.CrashAt
	if c.CrashEvent != "" {
		if c.evCount == nil {
			c.evCount = map[string]int{}
		}
		ev := NormEvent(kind + " " + traceDetail)
		c.evCount[ev]++
		hit = ev == c.CrashEvent && c.evCount[ev] == c.CrashOcc
	}
	if hit {
		c.Frozen = true
		c.Crashed = true
		c.logf("%s %s(%s) -> CRASH", c.Name, kind, detail)
		return true, ErrFrozen
	}
	if c.ErrMatch != nil && c.ErrMatch.MatchString(kind+" "+detail) {
		c.errSeen++
		if c.errSeen == c.ErrOcc {
			c.ErrFired++
			c.logf("%s %s(%s) -> injected error", c.Name, kind, detail)
			return false, ErrInjected
		}
	}
	if c.ErrAtMut[idx] || (c.ErrLen > 0 && idx >= c.ErrFrom && idx < c.ErrFrom+c.ErrLen && errClassHas(c.ErrClass, kind)) {
		c.ErrFired++
		c.logf("%s %s(%s) -> injected error", c.Name, kind, detail)
		return false, ErrInjected
	}
	c.logf("%s %s(%s)", c.Name, kind, detail)
	return false, nil
}

func errClassHas(class, kind string) bool {
	switch class {
	case "read":
		return false // reads have a counter of their own
	case "rename":
		return kind == "fs.Rename"
	case "nospace":
		switch kind {
		case "fs.Remove", "fs.Rename", "RemoveRef", "index.Remove", "index.Clear":
			return false
		}
		return true
	}
	return true
}

// ArmErr makes the next mutations fail: from the k-th mutation from now on, n of them, of a class.
func (c *Control) ArmErr(class string, k, n int) {
	c.mu.Lock()
	c.ErrClass, c.ErrFrom, c.ErrLen = class, c.Muts+k, n
	if class == "read" {
		c.ErrFrom = c.Reads + k
	}
	c.ErrFired = 0
	c.mu.Unlock()
}

// ReadCount tells how many read calls were made so far.
func (c *Control) ReadCount() int { c.mu.Lock(); defer c.mu.Unlock(); return c.Reads }

// ArmErrMatch makes the occ-th mutation from now on whose "kind detail" matches re fail.
func (c *Control) ArmErrMatch(re string, occ int) {
	c.mu.Lock()
	c.ErrMatch, c.ErrOcc, c.errSeen, c.ErrFired = regexp.MustCompile(re), occ, 0, 0
	c.mu.Unlock()
}

// ErrFiredCount tells how many calls failed since ArmErr.
func (c *Control) ErrFiredCount() int { c.mu.Lock(); defer c.mu.Unlock(); return c.ErrFired }

// DisarmErr ends the error condition and tells how many calls it made fail since ArmErr.
func (c *Control) DisarmErr() int {
	c.mu.Lock()
	defer c.mu.Unlock()
	c.ErrLen = 0
	c.ErrMatch = nil
	n := c.ErrFired
	c.ErrFired = 0
	return n
}

// SimRepo wraps a real ClockedRepo: every call is numbered, logged and can fail or
// be the crash point. It is the storage seam of every engine.
type SimRepo struct {
	Inner repository.ClockedRepo
	C     *Control
	// ClockDir is the directory of the persisted clock files ("" for in-memory clocks).
	ClockDir string
}

var _ repository.ClockedRepo = &SimRepo{}

func NewSimRepo(inner repository.ClockedRepo, c *Control, clockDir string) *SimRepo {
	return &SimRepo{Inner: inner, C: c, ClockDir: clockDir}
}

func (s *SimRepo) Close() error {
	if s.C.IsFrozen() {
		return ErrFrozen
	}
	s.C.stall("Close")
	return s.Inner.Close()
}

// config / keyring / common: pass-through (frozen check only)
func (s *SimRepo) LocalConfig() repository.Config   { return s.Inner.LocalConfig() }
func (s *SimRepo) GlobalConfig() repository.Config  { return s.Inner.GlobalConfig() }
func (s *SimRepo) AnyConfig() repository.ConfigRead { return s.Inner.AnyConfig() }
func (s *SimRepo) Keyring() repository.Keyring      { return s.Inner.Keyring() }
func (s *SimRepo) GetUserName() (string, error)     { return s.Inner.GetUserName() }
func (s *SimRepo) GetUserEmail() (string, error)    { return s.Inner.GetUserEmail() }
func (s *SimRepo) GetCoreEditor() (string, error)   { return s.Inner.GetCoreEditor() }
func (s *SimRepo) GetRemotes() (map[string]string, error) {
	if _, err := s.C.gate("GetRemotes", false, ""); err != nil {
		return nil, err
	}
	return s.Inner.GetRemotes()
}

// LocalStorage: file operations are gated below, at the osfs seam (gateFS).
func (s *SimRepo) LocalStorage() repository.LocalStorage { return s.Inner.LocalStorage() }

func (s *SimRepo) GetIndex(name string) (repository.Index, error) {
	if s.C.IsFrozen() {
		return nil, ErrFrozen
	}
	idx, err := s.Inner.GetIndex(name)
	if err != nil {
		return nil, err
	}
	return &simIndex{Index: idx, c: s.C, name: name}, nil
}

func (s *SimRepo) FetchRefs(remote string, prefixes ...string) (string, error) {
	if _, err := s.C.gate("FetchRefs", true, remote+" "+strings.Join(prefixes, ",")); err != nil {
		return "", err
	}
	return s.Inner.FetchRefs(remote, prefixes...)
}

func (s *SimRepo) PushRefs(remote string, prefixes ...string) (string, error) {
	if _, err := s.C.gate("PushRefs", true, remote+" "+strings.Join(prefixes, ",")); err != nil {
		return "", err
	}
	return s.Inner.PushRefs(remote, prefixes...)
}

func (s *SimRepo) StoreData(data []byte) (repository.Hash, error) {
	if _, err := s.C.gate("StoreData", true, fmt.Sprintf("%d bytes %s", len(data), shortSum(data))); err != nil {
		return "", err
	}
	return s.Inner.StoreData(data)
}

func (s *SimRepo) ReadData(hash repository.Hash) ([]byte, error) {
	if _, err := s.C.gate("ReadData", false, string(hash)); err != nil {
		return nil, err
	}
	return s.Inner.ReadData(hash)
}

func (s *SimRepo) StoreTree(mapping []repository.TreeEntry) (repository.Hash, error) {
	names := make([]string, len(mapping))
	for i, m := range mapping {
		names[i] = m.Name
	}
	if _, err := s.C.gate("StoreTree", true, strings.Join(names, ",")); err != nil {
		return "", err
	}
	return s.Inner.StoreTree(mapping)
}

func (s *SimRepo) ReadTree(hash repository.Hash) ([]repository.TreeEntry, error) {
	if _, err := s.C.gate("ReadTree", false, string(hash)); err != nil {
		return nil, err
	}
	return s.Inner.ReadTree(hash)
}

func (s *SimRepo) StoreCommit(treeHash repository.Hash, parents ...repository.Hash) (repository.Hash, error) {
	if _, err := s.C.gate("StoreCommit", true, fmt.Sprintf("%s %v", treeHash, parents)); err != nil {
		return "", err
	}
	return s.Inner.StoreCommit(treeHash, parents...)
}

func (s *SimRepo) StoreSignedCommit(treeHash repository.Hash, signKey *openpgp.Entity, parents ...repository.Hash) (repository.Hash, error) {
	if _, err := s.C.gate("StoreSignedCommit", true, fmt.Sprintf("%s %v", treeHash, parents)); err != nil {
		return "", err
	}
	return s.Inner.StoreSignedCommit(treeHash, signKey, parents...)
}

func (s *SimRepo) ReadCommit(hash repository.Hash) (repository.Commit, error) {
	if _, err := s.C.gate("ReadCommit", false, string(hash)); err != nil {
		return repository.Commit{}, err
	}
	return s.Inner.ReadCommit(hash)
}

func (s *SimRepo) ResolveRef(ref string) (repository.Hash, error) {
	if _, err := s.C.gate("ResolveRef", false, ref); err != nil {
		return "", err
	}
	return s.Inner.ResolveRef(ref)
}

func (s *SimRepo) UpdateRef(ref string, hash repository.Hash) error {
	if _, err := s.C.gate("UpdateRef", true, ref+" "+string(hash)); err != nil {
		return err
	}
	return s.Inner.UpdateRef(ref, hash)
}

func (s *SimRepo) RemoveRef(ref string) error {
	if _, err := s.C.gate("RemoveRef", true, ref); err != nil {
		return err
	}
	return s.Inner.RemoveRef(ref)
}

// permFor gives the permutation stream of the n-th enumeration of one prefix. The source is only
// read for its seed: git-bug enumerates the bugs and the identities from two goroutines (cache
// build, RemoveAll), and one shared stream would hand out its draws in the order they happen to
// arrive (and race on its state). Counters live with the source, which survives restarts.
func permFor(src *Rand, prefix string) *Rand {
	permMu.Lock()
	defer permMu.Unlock()
	if src.cnt == nil {
		src.cnt = map[string]int{}
	}
	m := src.cnt
	m[prefix]++
	h := uint64(14695981039346656037)
	for i := 0; i < len(prefix); i++ {
		h = (h ^ uint64(prefix[i])) * 1099511628211
	}
	return NewRand(Mix(Mix(src.s, h), uint64(m[prefix])))
}

var permMu sync.Mutex

func (s *SimRepo) ListRefs(refPrefix string) ([]string, error) {
	if _, err := s.C.gate("ListRefs", false, refPrefix); err != nil {
		return nil, err
	}
	refs, err := s.Inner.ListRefs(refPrefix)
	if err != nil {
		return nil, err
	}
	// canonical order first (go-git and the mock enumerate differently), then an
	// optional seeded permutation: results must not depend on enumeration order
	sort.Strings(refs)
	if s.C.Perm != nil && len(refs) > 1 {
		p := permFor(s.C.Perm, refPrefix).Perm(len(refs))
		out := make([]string, len(refs))
		for i, j := range p {
			out[i] = refs[j]
		}
		refs = out
	}
	return refs, nil
}

func (s *SimRepo) RefExist(ref string) (bool, error) {
	if _, err := s.C.gate("RefExist", false, ref); err != nil {
		return false, err
	}
	return s.Inner.RefExist(ref)
}

func (s *SimRepo) CopyRef(source string, dest string) error {
	if _, err := s.C.gate("CopyRef", true, source+" "+dest); err != nil {
		return err
	}
	return s.Inner.CopyRef(source, dest)
}

func (s *SimRepo) ListCommits(ref string) ([]repository.Hash, error) {
	if _, err := s.C.gate("ListCommits", false, ref); err != nil {
		return nil, err
	}
	return s.Inner.ListCommits(ref)
}

// ---- clocks ---------------------------------------------------------------------

func (s *SimRepo) AllClocks() (map[string]lamport.Clock, error) {
	if _, err := s.C.gate("AllClocks", false, ""); err != nil {
		return nil, err
	}
	return s.Inner.AllClocks()
}

func (s *SimRepo) GetOrCreateClock(name string) (lamport.Clock, error) {
	// may create the clock file: a mutation
	if _, err := s.C.gate("GetOrCreateClock", true, name); err != nil {
		return nil, err
	}
	return s.Inner.GetOrCreateClock(name)
}

func (s *SimRepo) Increment(name string) (lamport.Time, error) {
	if _, err := s.C.gate("Increment", true, name); err != nil {
		return 0, err
	}
	return s.Inner.Increment(name)
}

func (s *SimRepo) Witness(name string, time lamport.Time) error {
	// git-bug witnesses the clocks of a history in Go map order: the values arrive in a random
	// order (their effect, a maximum, does not depend on it); the hashed log keeps the name only
	if _, err := s.C.gate2("Witness", true, name, fmt.Sprintf("%s %d", name, time)); err != nil {
		return err
	}
	return s.Inner.Witness(name, time)
}

func shortSum(b []byte) string {
	s := sha256.Sum256(b)
	return fmt.Sprintf("%x", s[:4])
}

// ---- file system seam (.git/git-bug: clocks, cache files, lock) ------------------------

// The R-fs rule routes GoGitRepo's osfs through gateFS. The Control of the incarnation
// that currently owns a root directory is looked up at every call.
var (
	fsMu       sync.Mutex
	fsControls = map[string]*Control{}
)

func RegisterFSControl(root string, c *Control) {
	fsMu.Lock()
	fsControls[filepath.Clean(root)] = c
	fsMu.Unlock()
}

func UnregisterFSControl(root string, c *Control) {
	fsMu.Lock()
	if fsControls[filepath.Clean(root)] == c {
		delete(fsControls, filepath.Clean(root))
	}
	fsMu.Unlock()
}

func init() {
	verifrtfs.SetHook(func(root string, fs billy.Filesystem) billy.Filesystem {
		return &gateFS{Filesystem: fs, root: filepath.Clean(root)}
	})
}

type gateFS struct {
	billy.Filesystem
	root string
}

func (g *gateFS) ctl() *Control {
	fsMu.Lock()
	defer fsMu.Unlock()
	return fsControls[g.root]
}

func (g *gateFS) Create(filename string) (billy.File, error) {
	c := g.ctl()
	if c != nil {
		if _, err := c.gate("fs.Create", true, filename); err != nil {
			return nil, err
		}
	}
	f, err := g.Filesystem.Create(filename)
	if err != nil || c == nil {
		return f, err
	}
	return &simFile{File: f, c: c, name: filename}, nil
}

func (g *gateFS) OpenFile(filename string, flag int, perm os.FileMode) (billy.File, error) {
	c := g.ctl()
	write := flag&(os.O_WRONLY|os.O_RDWR|os.O_CREATE|os.O_TRUNC|os.O_APPEND) != 0
	if c != nil {
		if _, err := c.gate("fs.OpenFile", write, filename); err != nil {
			return nil, err
		}
	}
	f, err := g.Filesystem.OpenFile(filename, flag, perm)
	if err != nil || c == nil || !write {
		return f, err
	}
	return &simFile{File: f, c: c, name: filename}, nil
}

func (g *gateFS) Open(filename string) (billy.File, error) {
	if c := g.ctl(); c != nil {
		if _, err := c.gate("fs.Open", false, filename); err != nil {
			return nil, err
		}
	}
	return g.Filesystem.Open(filename)
}

func (g *gateFS) TempFile(dir, prefix string) (billy.File, error) {
	c := g.ctl()
	if c != nil {
		if _, err := c.gate("fs.TempFile", true, dir+"/"+prefix); err != nil {
			return nil, err
		}
	}
	f, err := g.Filesystem.TempFile(dir, prefix)
	if err != nil || c == nil {
		return f, err
	}
	return &simFile{File: f, c: c, name: "tmp:" + prefix}, nil
}

var tempNameRe = regexp.MustCompile(`^(clock|lock)[0-9]+$`)

func (g *gateFS) Remove(filename string) error {
	if c := g.ctl(); c != nil {
		c.stall("fs.Remove")
		// temporary files have random names: log them by their prefix
		if _, err := c.gate("fs.Remove", true, tempNameRe.ReplaceAllString(filename, "tmp:$1")); err != nil {
			return err
		}
	}
	return g.Filesystem.Remove(filename)
}

func (g *gateFS) Rename(oldpath, newpath string) error {
	if c := g.ctl(); c != nil {
		// temp file names are random: log the destination only
		if _, err := c.gate("fs.Rename", true, "-> "+newpath); err != nil {
			return err
		}
	}
	return g.Filesystem.Rename(oldpath, newpath)
}

func (g *gateFS) Stat(filename string) (os.FileInfo, error) {
	if c := g.ctl(); c != nil && c.IsFrozen() {
		return nil, ErrFrozen
	}
	return g.Filesystem.Stat(filename)
}

func (g *gateFS) ReadDir(path string) ([]os.FileInfo, error) {
	if c := g.ctl(); c != nil && c.IsFrozen() {
		return nil, ErrFrozen
	}
	return g.Filesystem.ReadDir(path)
}

func (g *gateFS) MkdirAll(filename string, perm os.FileMode) error {
	if c := g.ctl(); c != nil && c.IsFrozen() {
		return ErrFrozen
	}
	return g.Filesystem.MkdirAll(filename, perm)
}

type simFile struct {
	billy.File
	c    *Control
	name string
}

func (f *simFile) Write(p []byte) (int, error) {
	// the size of a gob-encoded cache file depends on the order in which the two sub-caches
	// first used the encoder (type ids are assigned on first use): keep it out of the hashed log
	logDetail := fmt.Sprintf("%s %d bytes", f.name, len(p))
	if strings.HasPrefix(f.name, "cache/") || strings.HasPrefix(f.name, "tmp:") {
		logDetail = f.name
	}
	crash, err := f.c.gate2("fs.Write", true, logDetail, fmt.Sprintf("%s %d bytes", f.name, len(p)))
	if err != nil {
		if crash && len(p) > 0 {
			// torn write: a prefix of the data reaches the file
			n := 0
			switch {
			case f.c.Torn == "new":
				n = len(p)
			case f.c.Torn == "prefix:half":
				n = len(p) / 2
			case f.c.Torn == "prefix:allbut1":
				n = len(p) - 1
			case strings.HasPrefix(f.c.Torn, "prefix:"):
				fmt.Sscanf(f.c.Torn, "prefix:%d", &n)
				if n > len(p) {
					n = len(p)
				}
			}
			if n > 0 {
				_, _ = f.File.Write(p[:n])
			}
			_ = f.File.Close()
			f.c.TornDone = fmt.Sprintf("%s:%d/%d", f.name, n, len(p))
		}
		return 0, err
	}
	return f.File.Write(p)
}

func (f *simFile) Close() error {
	if f.c.IsFrozen() {
		_ = f.File.Close()
		return ErrFrozen
	}
	return f.File.Close()
}

// ---- index ------------------------------------------------------------------------

type simIndex struct {
	repository.Index
	c    *Control
	name string
}

func (i *simIndex) IndexOne(id string, texts []string) error {
	if _, err := i.c.gate("index.IndexOne", true, i.name+" "+id); err != nil {
		return err
	}
	return i.Index.IndexOne(id, texts)
}

func (i *simIndex) IndexBatch() (func(id string, texts []string) error, func() error) {
	indexer, closer := i.Index.IndexBatch()
	return func(id string, texts []string) error {
			if i.c.IsFrozen() {
				return ErrFrozen
			}
			return indexer(id, texts)
		}, func() error {
			if _, err := i.c.gate("index.Batch", true, i.name); err != nil {
				return err
			}
			return closer()
		}
}

func (i *simIndex) Search(terms []string) ([]string, error) {
	if _, err := i.c.gate("index.Search", false, i.name+" "+strings.Join(terms, " ")); err != nil {
		return nil, err
	}
	return i.Index.Search(terms)
}

func (i *simIndex) DocCount() (uint64, error) {
	if _, err := i.c.gate("index.DocCount", false, i.name); err != nil {
		return 0, err
	}
	return i.Index.DocCount()
}

func (i *simIndex) Remove(id string) error {
	if _, err := i.c.gate("index.Remove", true, i.name+" "+id); err != nil {
		return err
	}
	return i.Index.Remove(id)
}

func (i *simIndex) Clear() error {
	if _, err := i.c.gate("index.Clear", true, i.name); err != nil {
		return err
	}
	return i.Index.Clear()
}

// ---- observer -----------------------------------------------------------------------

// Observer returns a handle on the same storage that refuses every mutation and whose
// clocks are throw-away in-memory clocks: oracles read through it without side effects.
type Observer struct {
	*SimRepo
	mu     sync.Mutex
	clocks map[string]lamport.Clock
}

func NewObserver(inner repository.ClockedRepo) *Observer {
	c := NewControl("observer", nil)
	c.ReadOnly = true
	return &Observer{SimRepo: NewSimRepo(inner, c, ""), clocks: map[string]lamport.Clock{}}
}

func (o *Observer) AllClocks() (map[string]lamport.Clock, error) {
	o.mu.Lock()
	defer o.mu.Unlock()
	out := map[string]lamport.Clock{}
	for k, v := range o.clocks {
		out[k] = v
	}
	return out, nil
}

func (o *Observer) GetOrCreateClock(name string) (lamport.Clock, error) {
	o.mu.Lock()
	defer o.mu.Unlock()
	if c, ok := o.clocks[name]; ok {
		return c, nil
	}
	c := lamport.NewMemClock()
	o.clocks[name] = c
	return c, nil
}

func (o *Observer) Increment(name string) (lamport.Time, error) {
	c, _ := o.GetOrCreateClock(name)
	return c.Increment()
}

func (o *Observer) Witness(name string, t lamport.Time) error {
	c, _ := o.GetOrCreateClock(name)
	return c.Witness(t)
}

// NormEvent reduces a mutation of the trace to what identifies it across executions: clock
// witnesses and file writes keep their target, not the value or size that comes with it.
func NormEvent(t string) string {
	f := strings.Fields(t)
	if len(f) >= 2 && (f[0] == "Witness" || f[0] == "fs.Write") {
		return f[0] + " " + f[1]
	}
	return t
}
