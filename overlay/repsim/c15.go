package repsim

import (
	"regexp"
	"bufio"
	"fmt"
	"os"
	"os/exec"
	"path/filepath"
	"sort"
	"strings"

	"github.com/MichaelMure/git-bug/bridge/core/auth"
	"github.com/MichaelMure/git-bug/zzverif/sim"
)

func gitCmd(dir string, args ...string) (string, error) {
	c := exec.Command("git", append([]string{"-C", dir}, args...)...)
	c.Env = append(os.Environ(),
		"GIT_AUTHOR_NAME=Host", "GIT_AUTHOR_EMAIL=host@example.org", "GIT_COMMITTER_NAME=Host", "GIT_COMMITTER_EMAIL=host@example.org",
		"GIT_AUTHOR_DATE=2021-01-01T00:00:00Z", "GIT_COMMITTER_DATE=2021-01-01T00:00:00Z", "GIT_CONFIG_NOSYSTEM=1", "GIT_TERMINAL_PROMPT=0")
	out, err := c.CombinedOutput()
	if err != nil {
		return string(out), fmt.Errorf("git %v: %v: %s", args, err, out)
	}
	return string(out), nil
}

// prepareHost turns the replica's repository into a host project: commits, branches, a tag,
// HEAD on a branch or detached, a staged and an unstaged change, untracked files, foreign config.
func (x *run) prepareHost(rs *repState, variant int) error {
	d := rs.r.Dir
	w := func(name, content string) error { return os.WriteFile(filepath.Join(d, name), []byte(content), 0o644) }
	steps := [][]string{}
	if err := w("README.md", "# host project\n"); err != nil {
		return err
	}
	_ = os.MkdirAll(filepath.Join(d, "src"), 0o755)
	_ = w("src/main.c", "int main(void) { return 0; }\n")
	steps = append(steps, []string{"add", "."}, []string{"commit", "-q", "-m", "first"})
	steps = append(steps, []string{"branch", "feature"}, []string{"tag", "v1.0"}, []string{"tag", "-a", "v1.1", "-m", "annotated"})
	for _, s := range steps {
		if _, err := gitCmd(d, s...); err != nil {
			return err
		}
	}
	_ = w("src/main.c", "int main(void) { return 1; }\n")
	if _, err := gitCmd(d, "commit", "-q", "-am", "second"); err != nil {
		return err
	}
	if variant%2 == 1 {
		if _, err := gitCmd(d, "checkout", "-q", "--detach", "HEAD~1"); err != nil {
			return err
		}
	}
	_ = w("staged.txt", "staged but not committed\n")
	if _, err := gitCmd(d, "add", "staged.txt"); err != nil {
		return err
	}
	_ = w("README.md", "# host project\nunstaged edit\n")
	_ = w("untracked.log", "not tracked\n")
	for _, kv := range [][2]string{{"core.hooksPath", "no-hooks"}, {"host.setting", "keep me"}, {"branch.feature.description", "a topic"}, {"alias.st", "status"},
		// sections that merely look like git-bug's
		{"git-bug-tools.setting", "not git-bug's"}, {"gitbug.setting", "neither"},
		// the committer's own identity, in a form git itself cleans up before it writes a commit
		{"user.name", []string{"Host Committer", "Jane Doe <jane.doe@corp.example.com>"}[variant%2]},
		{"user.email", []string{"host@example.org", "<jane.doe@corp.example.com>"}[variant%2]}} {
		if _, err := gitCmd(d, "config", kv[0], kv[1]); err != nil {
			return err
		}
	}
	// host refs whose names merely start like git-bug's namespaces: branches, tags, remote-tracking
	// branches of the very remotes git-bug syncs with, and a ref hierarchy of some other tool
	look := []string{"refs/heads/bugs-triage", "refs/heads/identities-cleanup", "refs/heads/bugs/fix-123", "refs/tags/bugs-v1",
		"refs/bugs-archive/2019", "refs/identities.bak/old"}
	for _, rem := range rs.r.Remotes {
		look = append(look, "refs/remotes/"+rem+"/bugs-triage", "refs/remotes/"+rem+"/bugsnag-integration", "refs/remotes/"+rem+"/identities-cleanup", "refs/remotes/"+rem+"/main")
	}
	for _, ref := range look {
		if _, err := gitCmd(d, "update-ref", ref, "HEAD"); err != nil {
			return err
		}
	}
	// the remotes git-bug syncs with are the project's remotes: they hold the project's branch and
	// tags too - one tag this clone has not fetched yet, and one that upstream moved since
	if variant == 0 {
		for _, h := range x.w.Hubs {
			if _, err := gitCmd(d, "push", "-q", h.Dir, "feature:refs/heads/main", "feature:refs/tags/remote-only", "feature:refs/tags/v1.0"); err != nil {
				return err
			}
		}
	}
	return nil
}

// parseGitConfig reads a git config file into "section.sub.key" -> values.
func parseGitConfig(path string) map[string][]string {
	out := map[string][]string{}
	f, err := os.Open(path)
	if err != nil {
		return out
	}
	defer f.Close()
	sc := bufio.NewScanner(f)
	section := ""
	for sc.Scan() {
		line := strings.TrimSpace(sc.Text())
		if line == "" || strings.HasPrefix(line, "#") || strings.HasPrefix(line, ";") {
			continue
		}
		if strings.HasPrefix(line, "[") && strings.HasSuffix(line, "]") {
			inner := strings.TrimSpace(line[1 : len(line)-1])
			if i := strings.Index(inner, " "); i >= 0 {
				sub := strings.Trim(strings.TrimSpace(inner[i:]), `"`)
				section = strings.ToLower(inner[:i]) + "." + sub
			} else {
				section = strings.ToLower(inner)
			}
			continue
		}
		k, v, _ := strings.Cut(line, "=")
		key := section + "." + strings.ToLower(strings.TrimSpace(k))
		out[key] = append(out[key], strings.Trim(strings.TrimSpace(v), `"`))
	}
	return out
}

type hostSnap struct {
	Refs    map[string]string
	Head    string
	Index   string
	Work    map[string]string
	Config  map[string]string
	GitFiles map[string]string // every file under .git, for the "where did git-bug write" check
}

func isGitBugRef(ref string) bool {
	if strings.HasPrefix(ref, "refs/bugs/") || strings.HasPrefix(ref, "refs/identities/") {
		return true
	}
	return trackingRefRe.MatchString(ref)
}

// a mirror of an entity under a remote's name, which may itself hold slashes ("team/hub0")
var trackingRefRe = regexp.MustCompile(`^refs/remotes/.+/(bugs|identities)/[0-9a-f]{64}$`)

func (x *run) hostSnapshot(rs *repState) *hostSnap {
	d := rs.r.Dir
	s := &hostSnap{Refs: map[string]string{}, Work: map[string]string{}, Config: map[string]string{}, GitFiles: map[string]string{}}
	// refs are read from disk (loose + packed), not through a git-bug handle
	_ = filepath.Walk(filepath.Join(d, ".git", "refs"), func(p string, info os.FileInfo, err error) error {
		if err != nil || info.IsDir() {
			return nil
		}
		rel, _ := filepath.Rel(filepath.Join(d, ".git"), p)
		if !isGitBugRef(rel) {
			b, _ := os.ReadFile(p)
			s.Refs[rel] = strings.TrimSpace(string(b))
		}
		return nil
	})
	if b, err := os.ReadFile(filepath.Join(d, ".git", "packed-refs")); err == nil {
		for _, line := range strings.Split(string(b), "\n") {
			f := strings.Fields(line)
			if len(f) == 2 && strings.HasPrefix(f[1], "refs/") && !isGitBugRef(f[1]) {
				if _, loose := s.Refs[f[1]]; !loose {
					s.Refs[f[1]] = f[0]
				}
			}
		}
	}
	hb, _ := os.ReadFile(filepath.Join(d, ".git", "HEAD"))
	s.Head = strings.TrimSpace(string(hb))
	s.Index = fileHash(filepath.Join(d, ".git", "index"))
	_ = filepath.Walk(d, func(p string, info os.FileInfo, err error) error {
		if err != nil {
			return nil
		}
		rel, _ := filepath.Rel(d, p)
		if info.IsDir() {
			if rel == ".git" {
				return filepath.SkipDir
			}
			return nil
		}
		s.Work[rel] = fileHash(p)
		return nil
	})
	for k, v := range parseGitConfig(filepath.Join(d, ".git", "config")) {
		if strings.HasPrefix(k, "git-bug.") {
			continue
		}
		s.Config[k] = strings.Join(v, "\x00")
	}
	_ = filepath.Walk(filepath.Join(d, ".git"), func(p string, info os.FileInfo, err error) error {
		if err != nil || info.IsDir() {
			return nil
		}
		rel, _ := filepath.Rel(filepath.Join(d, ".git"), p)
		s.GitFiles[rel] = ""
		return nil
	})
	return s
}

func allowedGitBugPath(rel string) bool {
	switch {
	case strings.HasPrefix(rel, "git-bug/"), strings.HasPrefix(rel, "objects/"):
		return true
	case rel == "config", rel == "packed-refs":
		return true // content is compared separately (foreign keys / foreign refs)
	case strings.HasPrefix(rel, "refs/"):
		return isGitBugRef(rel)
	}
	return false
}

func (x *run) hostCompare(rs *repState, a, b *hostSnap, what string) {
	name := rs.r.Name
	for k, v := range a.Refs {
		if w, ok := b.Refs[k]; !ok || w != v {
			x.violate("foreign-ref-changed", "%s on %s: host ref %s went from %s to %q", what, name, k, v, b.Refs[k])
		}
	}
	for k := range b.Refs {
		if _, ok := a.Refs[k]; !ok {
			x.violate("foreign-ref-changed", "%s on %s: a ref outside git-bug's namespaces appeared: %s", what, name, k)
		}
	}
	if a.Head != b.Head {
		x.violate("head-changed", "%s on %s: HEAD went from %q to %q", what, name, a.Head, b.Head)
	}
	if a.Index != b.Index {
		x.violate("index-changed", "%s on %s: the index file changed", what, name)
	}
	for k, v := range a.Work {
		if w, ok := b.Work[k]; !ok || w != v {
			x.violate("worktree-changed", "%s on %s: working-tree file %s changed or disappeared", what, name, k)
		}
	}
	for k := range b.Work {
		if _, ok := a.Work[k]; !ok {
			x.violate("worktree-changed", "%s on %s: a new working-tree file appeared: %s", what, name, k)
		}
	}
	for k, v := range a.Config {
		if w, ok := b.Config[k]; !ok || w != v {
			x.violate("foreign-config-changed", "%s on %s: configuration key %s went from %q to %q", what, name, k, v, b.Config[k])
		}
	}
	for k := range b.Config {
		if _, ok := a.Config[k]; !ok {
			x.violate("foreign-config-changed", "%s on %s: a configuration key outside git-bug.* appeared: %s", what, name, k)
		}
	}
	for k := range b.GitFiles {
		if _, ok := a.GitFiles[k]; !ok && !allowedGitBugPath(k) {
			x.violate("file-outside-namespace", "%s on %s: a file was created outside git-bug's places: .git/%s", what, name, k)
		}
	}
}

// stepCLI runs one command of the real command tree in-process on the replica.
func (x *run) stepCLI(rs *repState, s *sim.Step) error {
	r := rs.r
	x.stepCommit(rs, &sim.Step{})
	id := x.pickBug(rs, s.B)
	var args []string
	switch s.K {
	case "bug-new":
		args = []string{"bug", "new", "-t", s.S, "-m", s.T}
	case "comment":
		if id == "" {
			return fmt.Errorf("no bug")
		}
		args = []string{"bug", "comment", "new", id[:10], "-m", s.T}
	case "title":
		if id == "" {
			return fmt.Errorf("no bug")
		}
		args = []string{"bug", "title", "edit", id[:10], "-t", s.S}
	case "close":
		if id == "" {
			return fmt.Errorf("no bug")
		}
		args = []string{"bug", "status", "close", id[:10]}
	case "open":
		if id == "" {
			return fmt.Errorf("no bug")
		}
		args = []string{"bug", "status", "open", id[:10]}
	case "label":
		if id == "" {
			return fmt.Errorf("no bug")
		}
		args = []string{"bug", "label", "new", id[:10], "cli-label"}
	case "rm":
		if id == "" {
			return fmt.Errorf("no bug")
		}
		args = []string{"bug", "rm", id[:10]}
	case "push":
		h := x.hubFor(rs, s.H)
		if h == nil {
			return fmt.Errorf("no remote")
		}
		args = []string{"push", h.Name}
	case "pull":
		h := x.hubFor(rs, s.H)
		if h == nil {
			return fmt.Errorf("no remote")
		}
		args = []string{"pull", h.Name}
	case "user-new":
		args = []string{"user", "new", "-n", "cli user " + s.S, "-e", "cli@example.org"}
	case "ls":
		args = []string{"bug", "status:open"}
	case "show":
		if id == "" {
			return fmt.Errorf("no bug")
		}
		args = []string{"bug", "show", id[:10]}
	case "user":
		args = []string{"user"}
	case "bridge-config":
		// the interactive `bridge new` validates against the network; the same configuration
		// and credential are written through the public API instead
		cfg := r.Sim.LocalConfig()
		_ = cfg.StoreString("git-bug.bridge.sim.target", "gitlab")
		_ = cfg.StoreString("git-bug.bridge.sim.project-id", "42")
		_ = cfg.StoreString("git-bug.bridge.sim.base-url", "https://gitlab.example.org")
		tok := auth.NewToken("gitlab", "secret-token-"+s.S)
		tok.SetMetadata(auth.MetaKeyLogin, "simuser")
		err := auth.Store(r.Sim, tok)
		x.probe("bridge_configured")
		return err
	default:
		return fmt.Errorf("unknown command kind %s", s.K)
	}
	_ = r.CloseClean()
	rs.alive = false
	rs.staged = map[string]bool{}
	_, err := sim.RunCLI(x.w, r, args...)
	x.probe("cli_" + s.K)
	if e2 := r.Open(); e2 != nil {
		x.res.HarnessErr = fmt.Sprintf("reopen after CLI %v: %v", args, e2)
		return e2
	}
	rs.alive = true
	if err == nil && s.K == "bug-new" {
		// learn the new bug's id from the refs
		for _, bid := range x.localBugIds(rs) {
			known := false
			for _, k := range x.bugs {
				if k == bid {
					known = true
				}
			}
			if !known {
				x.bugs = append(x.bugs, bid)
			}
		}
	}
	return err
}

// fsckAll runs stock git's strict consistency check on every replica and hub.
func (x *run) fsckAll() {
	check := func(dir, name string) {
		out, err := gitCmd(dir, "fsck", "--strict", "--no-dangling")
		if err != nil {
			x.violate("fsck-failed", "git fsck --strict on %s: %s", name, sim.Trunc(out, 600))
		}
		if _, err := gitCmd(dir, "for-each-ref"); err != nil {
			x.violate("fsck-failed", "git for-each-ref on %s: %v", name, err)
		}
		x.probe("fsck_run")
	}
	for _, rs := range x.reps {
		if rs.wiped {
			continue
		}
		check(rs.r.Dir, rs.r.Name)
	}
	for _, h := range x.w.Hubs {
		check(h.Dir, h.Name)
	}
	if x.p.Tier == "thorough" && len(x.w.Hubs) > 0 {
		// stock git can clone, and garbage-collect, what git-bug wrote
		dst := filepath.Join(x.w.Root, "mirror.git")
		if out, err := exec.Command("git", "clone", "-q", "--mirror", x.w.Hubs[0].Dir, dst).CombinedOutput(); err != nil {
			x.violate("stock-git-transfer-failed", "git clone --mirror of %s: %s", x.w.Hubs[0].Name, sim.Trunc(string(out), 400))
		} else if out, err := gitCmd(dst, "gc", "-q", "--prune=now"); err != nil {
			x.violate("stock-git-transfer-failed", "git gc on a mirror of %s: %s", x.w.Hubs[0].Name, sim.Trunc(out, 400))
		} else {
			refs, _ := gitCmd(dst, "for-each-ref", "--format=%(refname)")
			n := 0
			for _, l := range strings.Split(refs, "\n") {
				if strings.HasPrefix(l, "refs/bugs/") || strings.HasPrefix(l, "refs/identities/") {
					n++
				}
			}
			x.probe("mirror_clone_gc")
			if n > 0 {
				if out, err := gitCmd(dst, "fsck", "--strict", "--no-dangling"); err != nil {
					x.violate("fsck-failed", "git fsck on the garbage-collected mirror: %s", sim.Trunc(out, 400))
				}
			}
		}
	}
}

var _ = sort.Strings
