// Package byzsim is the Byzantine-remote engine: an adversary crafts bug and identity
// histories with its own encoder of the documented format, mutates them structurally at
// every position, and serves them to a victim running the real fetch + merge / read /
// cache build. Decides C07, C08, and the crafted-history parts of C03 and C09.
package byzsim

import (
	"encoding/json"
	"fmt"

	"github.com/MichaelMure/git-bug/repository"
	"github.com/MichaelMure/git-bug/zzverif/model"
	"github.com/MichaelMure/git-bug/zzverif/sim"
)

// node is one commit of a crafted bug history.
type node struct {
	Spec    model.PackSpec
	Parents []int // indices of parent nodes (created before)
	// Entries, if non-nil, replaces the documented entries (mutations edit this)
	Entries []model.Entry
	Hash    repository.Hash
}

type history struct {
	Nodes []*node
	// RefName overrides the ref under which the history is published ("" = bug id)
	RefName string
	// RawRefTarget, if set, is published instead of the head commit (blob / tree hash)
	RawRefTarget string
	// Recommit: identical content, but every commit gets another timestamp (other hashes)
	Recommit bool
}

func (h *history) clone() *history {
	b, _ := json.Marshal(h)
	var c history
	_ = json.Unmarshal(b, &c)
	return &c
}

// head is the last node (generation ends with a single head).
func (h *history) head() int { return len(h.Nodes) - 1 }

func (n *node) entries() []model.Entry {
	if n.Entries != nil {
		return n.Entries
	}
	return n.Spec.Entries()
}

// bugId is the id of the first operation of the root pack ("" when there is none).
func (h *history) bugId() string {
	if len(h.Nodes) == 0 || len(h.Nodes[0].Spec.Ops) == 0 {
		return ""
	}
	return model.Sha256Hex(h.Nodes[0].Spec.Ops[0])
}

// ancestors returns the closure of node i (including i), as sorted indices.
func (h *history) ancestors(i int) []int {
	seen := map[int]bool{}
	var walk func(int)
	walk = func(k int) {
		if seen[k] {
			return
		}
		seen[k] = true
		for _, p := range h.Nodes[k].Parents {
			walk(p)
		}
	}
	walk(i)
	var out []int
	for k := 0; k < len(h.Nodes); k++ {
		if seen[k] {
			out = append(out, k)
		}
	}
	return out
}

// store writes the closure of node `upto` and returns the commit hash of it.
func (h *history) store(w model.Writer, upto int) (repository.Hash, error) {
	for _, i := range h.ancestors(upto) {
		n := h.Nodes[i]
		var parents []repository.Hash
		for _, p := range n.Parents {
			parents = append(parents, h.Nodes[p].Hash)
		}
		hash, err := model.StoreCommitOf(w, n.entries(), parents...)
		if err != nil {
			return "", err
		}
		n.Hash = hash
	}
	return h.Nodes[upto].Hash, nil
}

// ---- generation of valid histories -----------------------------------------------------

type gen struct {
	r       *sim.Rand
	authors []string
	wall    int64
	nonce   uint64
}

func (g *gen) base(t int) map[string]interface{} {
	g.wall += int64(g.r.Range(1, 5000))
	g.nonce++
	m := map[string]interface{}{"type": t, "timestamp": g.wall, "nonce": model.Nonce(g.nonce*7919+uint64(g.r.Intn(1<<20)), 20)}
	if g.r.Chance(0.1) {
		m["metadata"] = map[string]string{"origin": "byz"}
	}
	return m
}

var titles = []string{"crash on startup", "wrong total", "日本語 title", "typo in docs kw3", "slow query"}
var msgs = []string{"", "first line\nsecond line", "it fails kw7", "héllo wörld", "steps:\r\n1. do\r\n2. see"}
var lbls = []string{"bug", "ui", "prio:high", "étiquette"}

func (g *gen) createOp() json.RawMessage {
	m := g.base(model.OpCreate)
	m["title"] = titles[g.r.Intn(len(titles))]
	m["message"] = msgs[g.r.Intn(len(msgs))]
	m["files"] = nil
	return model.OpJSON(m)
}

// editOp makes one non-create operation; comments lists ids of earlier comment-bearing ops.
func (g *gen) editOp(comments *[]string) json.RawMessage {
	var m map[string]interface{}
	switch g.r.Intn(7) {
	case 0, 1:
		m = g.base(model.OpAddComment)
		m["message"] = msgs[g.r.Intn(len(msgs))]
		m["files"] = nil
		raw := model.OpJSON(m)
		*comments = append(*comments, model.Sha256Hex(raw))
		return raw
	case 2:
		m = g.base(model.OpSetTitle)
		m["title"] = titles[g.r.Intn(len(titles))]
		m["was"] = titles[g.r.Intn(len(titles))]
	case 3:
		m = g.base(model.OpSetStatus)
		m["status"] = 1 + g.r.Intn(2)
	case 4:
		m = g.base(model.OpLabelChange)
		m["added"] = []string{lbls[g.r.Intn(len(lbls))]}
		m["removed"] = []string{}
	case 5:
		m = g.base(model.OpEditComment)
		m["target"] = (*comments)[g.r.Intn(len(*comments))]
		m["message"] = msgs[1+g.r.Intn(len(msgs)-1)]
		m["files"] = nil
	default:
		m = g.base(model.OpNoOp)
	}
	return model.OpJSON(m)
}

// genHistory builds a valid history of about n commits with forks and merges.
func (g *gen) genHistory(n int) *history {
	h := &history{}
	comments := []string{}
	root := &node{Spec: model.PackSpec{Author: g.authors[0], Version: 4, Edit: uint64(g.r.Range(1, 5)), Create: uint64(g.r.Range(1, 5))}}
	cr := g.createOp()
	comments = append(comments, model.Sha256Hex(cr))
	root.Spec.Ops = []json.RawMessage{cr}
	for k := g.r.Intn(2); k > 0; k-- {
		root.Spec.Ops = append(root.Spec.Ops, g.editOp(&comments))
	}
	h.Nodes = append(h.Nodes, root)
	heads := []int{0}
	isHead := func(i int) bool {
		for _, x := range heads {
			if x == i {
				return true
			}
		}
		return false
	}
	removeHead := func(i int) {
		var out []int
		for _, x := range heads {
			if x != i {
				out = append(out, x)
			}
		}
		heads = out
	}
	for len(h.Nodes) < n {
		if len(heads) >= 2 && g.r.Chance(0.4) {
			a := heads[g.r.Intn(len(heads))]
			b := a
			for b == a {
				b = heads[g.r.Intn(len(heads))]
			}
			e := h.Nodes[a].Spec.Edit
			if h.Nodes[b].Spec.Edit > e {
				e = h.Nodes[b].Spec.Edit
			}
			m := &node{Spec: model.PackSpec{Author: g.authors[g.r.Intn(len(g.authors))], Version: 4, Edit: e + 1}, Parents: []int{a, b}}
			h.Nodes = append(h.Nodes, m)
			removeHead(a)
			removeHead(b)
			heads = append(heads, len(h.Nodes)-1)
			continue
		}
		// child of a head (extend) or of any commit (fork)
		p := heads[g.r.Intn(len(heads))]
		if g.r.Chance(0.35) {
			p = g.r.Intn(len(h.Nodes))
		}
		c := &node{Spec: model.PackSpec{Author: g.authors[g.r.Intn(len(g.authors))], Version: 4, Edit: h.Nodes[p].Spec.Edit + 1 + uint64(g.r.Intn(2))}, Parents: []int{p}}
		for k := g.r.Range(1, 3); k > 0; k-- {
			c.Spec.Ops = append(c.Spec.Ops, g.editOp(&comments))
		}
		h.Nodes = append(h.Nodes, c)
		if isHead(p) {
			removeHead(p)
		}
		heads = append(heads, len(h.Nodes)-1)
	}
	// join the remaining heads
	for len(heads) > 1 {
		a, b := heads[0], heads[1]
		e := h.Nodes[a].Spec.Edit
		if h.Nodes[b].Spec.Edit > e {
			e = h.Nodes[b].Spec.Edit
		}
		m := &node{Spec: model.PackSpec{Author: g.authors[0], Version: 4, Edit: e + 1}, Parents: []int{a, b}}
		h.Nodes = append(h.Nodes, m)
		heads = append([]int{len(h.Nodes) - 1}, heads[2:]...)
	}
	// the head must be the last node
	if heads[0] != len(h.Nodes)-1 {
		p := heads[0]
		c := &node{Spec: model.PackSpec{Author: g.authors[0], Version: 4, Edit: h.maxEdit() + 1}, Parents: []int{p}}
		c.Spec.Ops = []json.RawMessage{g.editOp(&comments)}
		h.Nodes = append(h.Nodes, c)
	}
	return h
}

func (h *history) maxEdit() uint64 {
	var m uint64
	for _, n := range h.Nodes {
		if n.Spec.Edit > m {
			m = n.Spec.Edit
		}
	}
	return m
}

func (h *history) String() string {
	s := ""
	for i, n := range h.Nodes {
		s += fmt.Sprintf("[%d p%v e%d c%d ops%d]", i, n.Parents, n.Spec.Edit, n.Spec.Create, len(n.Spec.Ops))
	}
	return s
}
