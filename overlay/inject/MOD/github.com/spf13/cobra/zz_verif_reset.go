package cobra

import "github.com/spf13/pflag"

// VerifProcessExit is added by the verification overlay only (rule R-inject). cobra keeps the
// completion functions of every flag ever registered in a package-level map; in a real process
// that is one command tree, in the simulator it is one per simulated process, each holding its
// command's environment (and through it a whole repository) alive.
func VerifProcessExit() {
	flagCompletionMutex.Lock()
	flagCompletionFunctions = map[*pflag.Flag]func(cmd *Command, args []string, toComplete string) ([]string, ShellCompDirective){}
	flagCompletionMutex.Unlock()
}
