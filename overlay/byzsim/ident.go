package byzsim

import (
	"encoding/json"
	"fmt"
	"strings"

	"github.com/MichaelMure/git-bug/repository"
	"github.com/MichaelMure/git-bug/zzverif/model"
	"github.com/MichaelMure/git-bug/zzverif/sim"
	"github.com/MichaelMure/git-bug/zzverif/verifrt"
)

// identVersion is one crafted identity version: the JSON object plus the tree layout.
type identVersion struct {
	Fields  map[string]interface{}
	RawBlob []byte        // overrides Fields when set
	Entries []model.Entry // overrides the single "version" entry when set
	Extra   *identVersion // second parent (two-parents mutation)
}

func (v *identVersion) blob() []byte {
	if v.RawBlob != nil {
		return v.RawBlob
	}
	return model.IdentityVersionJSON(v.Fields)
}

type identMutation struct {
	Name    string
	Verdict string
	Applies func(v int) bool
	Apply   func(chain []*identVersion, v int, st *identState)
}

type identState struct {
	RefName  string
	Recommit bool
}

func anyV(v int) bool   { return true }
func laterV(v int) bool { return v > 0 }
func firstV(v int) bool { return v == 0 }

func setField(k string, val interface{}) func(chain []*identVersion, v int, st *identState) {
	return func(chain []*identVersion, v int, st *identState) { chain[v].Fields[k] = val }
}

var identCatalogue = []identMutation{
	{Name: "ident-none", Verdict: "accept", Applies: firstV, Apply: func(chain []*identVersion, v int, st *identState) {}},
	{Name: "ident-times-decreasing", Verdict: "reject", Applies: laterV, Apply: func(chain []*identVersion, v int, st *identState) {
		chain[v].Fields["times"] = map[string]uint64{"bugs-create": 1, "bugs-edit": 1}
	}},
	{Name: "ident-times-dropped-clock", Verdict: "reject", Applies: laterV, Apply: func(chain []*identVersion, v int, st *identState) {
		chain[v].Fields["times"] = map[string]uint64{"bugs-edit": 90}
	}},
	{Name: "ident-times-clock-swapped", Verdict: "reject", Applies: laterV, Apply: func(chain []*identVersion, v int, st *identState) {
		// one clock disappears, another appears: as many clocks as before, still a dropped clock
		chain[v].Fields["times"] = swapClock(chain[v-1].Fields["times"])
	}},
	{Name: "ident-no-name-no-login", Verdict: "reject", Applies: anyV, Apply: func(chain []*identVersion, v int, st *identState) {
		delete(chain[v].Fields, "name")
		delete(chain[v].Fields, "login")
	}},
	{Name: "ident-name-control-char", Verdict: "reject", Applies: anyV, Apply: setField("name", "evil\u0007name")},
	{Name: "ident-name-newline", Verdict: "reject", Applies: anyV, Apply: setField("name", "two\nlines")},
	{Name: "ident-login-control-char", Verdict: "reject", Applies: anyV, Apply: setField("login", "lo\u0000gin")},
	{Name: "ident-email-newline", Verdict: "reject", Applies: anyV, Apply: setField("email", "a@b\nc")},
	{Name: "ident-avatar-bad-url", Verdict: "either", Applies: anyV, Apply: setField("avatar_url", "not a url")},
	{Name: "ident-format-version-1", Verdict: "reject", Applies: anyV, Apply: setField("version", 1)},
	{Name: "ident-format-version-3", Verdict: "reject", Applies: anyV, Apply: setField("version", 3)},
	{Name: "ident-format-version-missing", Verdict: "reject", Applies: anyV, Apply: func(chain []*identVersion, v int, st *identState) {
		delete(chain[v].Fields, "version")
	}},
	{Name: "ident-format-version-string", Verdict: "reject", Applies: anyV, Apply: setField("version", "2")},
	{Name: "ident-blob-not-json", Verdict: "reject", Applies: anyV, Apply: func(chain []*identVersion, v int, st *identState) {
		chain[v].RawBlob = []byte("not json at all")
	}},
	{Name: "ident-blob-array", Verdict: "reject", Applies: anyV, Apply: func(chain []*identVersion, v int, st *identState) {
		chain[v].RawBlob = []byte("[1,2]")
	}},
	{Name: "ident-blob-null", Verdict: "reject", Applies: anyV, Apply: func(chain []*identVersion, v int, st *identState) {
		chain[v].RawBlob = []byte("null")
	}},
	{Name: "ident-nonce-short", Verdict: "either", Applies: anyV, Apply: setField("nonce", []byte{1, 2})},
	{Name: "ident-nonce-missing", Verdict: "either", Applies: anyV, Apply: func(chain []*identVersion, v int, st *identState) {
		delete(chain[v].Fields, "nonce")
	}},
	{Name: "ident-unix-time-zero", Verdict: "either", Applies: anyV, Apply: setField("unix_time", 0)},
	{Name: "ident-times-string", Verdict: "reject", Applies: anyV, Apply: setField("times", "soon")},
	{Name: "ident-times-huge", Verdict: "either", Applies: laterV, Apply: func(chain []*identVersion, v int, st *identState) {
		chain[v].Fields["times"] = map[string]uint64{"bugs-create": 1 << 62, "bugs-edit": 1 << 62}
	}},
	{Name: "ident-keys-garbage", Verdict: "either", Applies: anyV, Apply: setField("pub_keys", []string{"garbage"})},
	{Name: "ident-keys-type-confused", Verdict: "reject", Applies: anyV, Apply: setField("pub_keys", 7)},
	{Name: "ident-keys-null-element", Verdict: "reject", Applies: anyV, Apply: setField("pub_keys", []interface{}{nil})},
	{Name: "ident-metadata-type-confused", Verdict: "reject", Applies: anyV, Apply: setField("metadata", []int{1})},
	{Name: "ident-tree-no-version-entry", Verdict: "reject", Applies: anyV, Apply: func(chain []*identVersion, v int, st *identState) {
		chain[v].Entries = []model.Entry{{Name: "ver", Kind: "blob", Data: chain[v].blob()}}
	}},
	{Name: "ident-tree-extra-entry", Verdict: "either", Applies: anyV, Apply: func(chain []*identVersion, v int, st *identState) {
		chain[v].Entries = []model.Entry{{Name: "version", Kind: "blob", Data: chain[v].blob()}, {Name: "zz", Kind: "empty"}}
	}},
	{Name: "ident-tree-empty", Verdict: "reject", Applies: anyV, Apply: func(chain []*identVersion, v int, st *identState) {
		chain[v].Entries = []model.Entry{}
	}},
	{Name: "ident-version-entry-is-tree", Verdict: "reject", Applies: anyV, Apply: func(chain []*identVersion, v int, st *identState) {
		chain[v].Entries = []model.Entry{{Name: "version", Kind: "tree", Sub: []model.Entry{{Name: "x", Kind: "empty"}}}}
	}},
	{Name: "ident-recommitted-same-content", Verdict: "reject-if-local", Applies: firstV, Apply: func(chain []*identVersion, v int, st *identState) {
		// the same version blobs in other commits: a history that shares no commit with the local one
		st.Recommit = true
	}},
	{Name: "ident-ref-id-mismatch", Verdict: "reject", Applies: firstV, Apply: func(chain []*identVersion, v int, st *identState) {
		st.RefName = strings.Repeat("cd", 32)
	}},
	{Name: "ident-ref-name-not-an-id", Verdict: "reject", Applies: firstV, Apply: func(chain []*identVersion, v int, st *identState) {
		st.RefName = "someone"
	}},
}

func validChain(seed uint64) []*identVersion {
	var chain []*identVersion
	for i := 0; i < 3; i++ {
		chain = append(chain, &identVersion{Fields: map[string]interface{}{
			"version":   2,
			"times":     map[string]uint64{"bugs-create": uint64(2 + i), "bugs-edit": uint64(5 + 3*i)},
			"unix_time": 1_690_000_000 + 1000*i,
			"name":      fmt.Sprintf("Mallory %d", i),
			"email":     "mallory@example.org",
			"nonce":     model.Nonce(seed+uint64(i), 20),
		}})
	}
	return chain
}

func cloneChain(c []*identVersion) []*identVersion {
	b, _ := json.Marshal(c)
	var out []*identVersion
	_ = json.Unmarshal(b, &out)
	// json turns numbers into float64 and []byte into base64 strings: restore the typed fields
	for i, v := range out {
		v.Fields["times"] = c[i].Fields["times"]
		v.Fields["nonce"] = c[i].Fields["nonce"]
		v.Fields["version"] = c[i].Fields["version"]
		v.Fields["unix_time"] = c[i].Fields["unix_time"]
	}
	return out
}

func storeChain(w model.Writer, chain []*identVersion, upto int) (repository.Hash, error) {
	var parent repository.Hash
	for i := 0; i <= upto; i++ {
		v := chain[i]
		es := v.Entries
		if es == nil {
			es = []model.Entry{{Name: "version", Kind: "blob", Data: v.blob()}}
		}
		var ps []repository.Hash
		if parent != "" {
			ps = append(ps, parent)
		}
		h, err := model.StoreCommitOf(w, es, ps...)
		if err != nil {
			return "", err
		}
		parent = h
	}
	return parent, nil
}

func identChainOf(raw *repository.GoGitRepo, id string) string {
	chain, err := model.ReadIdentity(raw, "refs/identities/"+id)
	if err != nil {
		return "ERR " + err.Error()
	}
	var hs []string
	for _, v := range chain {
		hs = append(hs, v.CommitHash[:7])
	}
	return strings.Join(hs, ",")
}

func (e *Engine) identCase(p *sim.Plan, st *sim.Step, res *sim.RunResult, keep bool) ([]sim.Violation, string) {
	var m *identMutation
	for i := range identCatalogue {
		if identCatalogue[i].Name == st.K {
			m = &identCatalogue[i]
		}
	}
	if m == nil || st.N > 2 || !m.Applies(st.N) {
		return nil, "skipped"
	}
	cw, err := newCaseWorld(p, st, keep)
	if err != nil {
		res.HarnessErr = "case world: " + err.Error()
		return nil, "skipped"
	}
	defer cw.close()
	prop := p.Property
	var vs []sim.Violation
	add := func(kind, format string, a ...interface{}) {
		vs = append(vs, sim.Violation{Property: prop, Kind: kind, Detail: fmt.Sprintf("identity mutation %s at version %d, victim situation %s via %s API: ", st.K, st.N, st.S, st.T) + fmt.Sprintf(format, a...)})
	}
	valid := validChain(p.RunSeed)
	id := model.Sha256Hex(valid[0].blob())
	hostile := cloneChain(valid)
	state := &identState{}
	m.Apply(hostile, st.N, state)
	hid := model.Sha256Hex(hostile[0].blob())
	refName := id
	if state.RefName != "" {
		refName = state.RefName
	} else if hid != id {
		if m.Verdict == "reject" {
			refName = id // kept under the known id: also a ref/id mismatch
		} else {
			refName = hid
		}
	}
	// local situation: absent, or a valid prefix (1 or 2 versions)
	situation := st.S
	if situation == "ahead" {
		situation = "equal"
	}
	if situation == "diverged" {
		situation = "behind"
	}
	if refName != id {
		situation = "absent"
	}
	if situation != "absent" {
		k := 2
		if situation == "behind" {
			k = 0
		}
		if m.Verdict == "accept" && k >= st.N && st.K != "ident-none" {
			k = st.N - 1
		}
		if k < 0 {
			situation = "absent"
		} else {
			head, err := storeChain(cw.pub, valid, k)
			if err != nil {
				res.HarnessErr = "store valid chain: " + err.Error()
				return nil, "skipped"
			}
			_ = cw.pub.UpdateRef("refs/identities/"+id, head)
			outs, err := cw.victimPull("hub0")
			if err != nil {
				res.HarnessErr = fmt.Sprintf("victim cannot pull the valid identity: %v", err)
				return nil, "skipped"
			}
			ok := false
			for _, o := range outs {
				if o.Id == id && statusName(o.Status) == "new" {
					ok = true
				}
			}
			if !ok {
				if prop == "C09" {
					add("ff-not-applied", "a valid crafted identity chain (%d versions) was not merged as new: %+v", k+1, outs)
					return vs, "prefix-refused"
				}
				res.HarnessErr = fmt.Sprintf("valid identity chain not merged as new: %+v", outs)
				return nil, "skipped"
			}
		}
	}
	cw.w.Act(nil)
	if state.Recommit {
		cw.w.IdleWall = 1_700_000_777
	}
	head, err := storeChain(cw.adv, hostile, len(hostile)-1)
	cw.w.IdleWall = 1_700_000_000
	if err != nil {
		return nil, "skipped"
	}
	if err := cw.adv.UpdateRef("refs/identities/"+refName, head); err != nil {
		return nil, "skipped"
	}
	preRefs, _ := localState(cw.victim.Raw)
	preChain := identChainOf(cw.victim.Raw, refName)
	outs, pullErr := cw.victimPull("hub1")
	postRefs, _ := localState(cw.victim.Raw)
	postChain := identChainOf(cw.victim.Raw, refName)
	panics := verifrt.TakePanicsQuiesced(cw.goBase)
	for _, pr := range panics {
		add("panic", "panic in %s: %s", pr.Site, pr.Value)
	}
	if pullErr != nil && len(panics) == 0 && strings.HasPrefix(pullErr.Error(), "fetch") {
		return vs, "fetch-refused"
	}
	status := "none"
	for _, o := range outs {
		if o.Id == refName {
			status = statusName(o.Status)
		}
	}
	res.Probes["ident_verdict_"+m.Verdict+"_status_"+status]++
	refused := status == "invalid" || status == "error"
	localRef := "refs/identities/" + refName
	for ref, h := range preRefs {
		if ref != localRef && postRefs[ref] != h {
			add("local-ref-changed", "unrelated local ref %s moved", ref)
		}
	}
	verdict := m.Verdict
	if verdict == "reject-if-local" {
		verdict = "reject"
		if situation == "absent" {
			verdict = "accept"
		} else if situation == "equal" || situation == "ahead" {
			// identical content, nothing new: reporting "nothing" without touching the local
			// identity is as good as refusing
			verdict = "either"
		}
	}
	switch verdict {
	case "reject":
		if !refused && len(panics) == 0 {
			kind := "hostile-accepted"
			if prop == "C09" {
				kind = "invalid-identity-accepted"
			}
			add(kind, "merge reported %q for an identity that must be refused", status)
		}
		if preRefs[localRef] != postRefs[localRef] || preChain != postChain {
			kind := "local-ref-changed"
			if prop == "C09" {
				kind = "diverged-changed-local"
			}
			add(kind, "local identity changed from %q to %q although the remote must be refused", preChain, postChain)
		}
	case "accept":
		if refused || status == "none" {
			if len(panics) == 0 {
				if prop == "C09" {
					add("ff-not-applied", "a valid identity chain was refused (status %s)", status)
				} else {
					res.HarnessErr = fmt.Sprintf("identity control refused: %+v", outs)
					return nil, "skipped"
				}
			}
		}
	case "either":
		if refused || status == "none" {
			if preRefs[localRef] != postRefs[localRef] {
				add("local-ref-changed", "local identity ref moved although the merge reported %q", status)
			}
		} else if strings.HasPrefix(postChain, "ERR") {
			add("accepted-but-unreadable", "identity accepted (%s) but the local chain no longer decodes: %s", status, postChain)
		}
	}
	return vs, m.Verdict + "/" + status
}

// swapClock copies a version's clock map, takes "bugs-edit" out and puts an unrelated clock in.
func swapClock(prev interface{}) map[string]uint64 {
	out := map[string]uint64{}
	switch m := prev.(type) {
	case map[string]uint64:
		for k, v := range m {
			out[k] = v
		}
	case map[string]interface{}:
		for k, v := range m {
			if f, ok := v.(float64); ok {
				out[k] = uint64(f)
			}
		}
	}
	delete(out, "bugs-edit")
	out["other-edit"] = 1
	return out
}

// ---- C09 under read errors: fault enumeration over the reads of one identity merge

func faultChains(seed uint64, p, a, b int) (local, remote []*identVersion) {
	mk := func(i int, who string) *identVersion {
		return &identVersion{Fields: map[string]interface{}{
			"version":   2,
			"times":     map[string]uint64{"bugs-create": uint64(2 + i), "bugs-edit": uint64(5 + 3*i)},
			"unix_time": 1_690_000_000 + 1000*i,
			"name":      fmt.Sprintf("%s %d", who, i),
			"email":     "carol@example.org",
			"nonce":     model.Nonce(seed+uint64(i)+uint64(len(who))*1000, 20),
		}}
	}
	for i := 0; i < p; i++ {
		local = append(local, mk(i, "Carol"))
	}
	remote = cloneChain(local)
	for i := 0; i < a; i++ {
		local = append(local, mk(p+i, "Carol here"))
	}
	for i := 0; i < b; i++ {
		remote = append(remote, mk(p+i, "Carol elsewhere"))
	}
	return local, remote
}

// identFaultCase: the victim holds a valid chain of p+a versions, the remote one of p+b versions
// with the same first p; the merge of the remote is executed once without a fault and then once
// for EVERY read call it issued, that read failing. Whatever the merge then reports, the local
// chain is what it was, or (only when the remote extends it) the remote chain: never rewound,
// never replaced.
func (e *Engine) identFaultCase(p *sim.Plan, st *sim.Step, res *sim.RunResult, keep bool) ([]sim.Violation, string) {
	pp, a, b := st.N/9+1, st.N/3%3, st.N%3
	var vs []sim.Violation
	reads := -1
	for fault := -1; fault < reads || fault == -1; fault++ {
		cw, err := newCaseWorld(p, st, keep)
		if err != nil {
			res.HarnessErr = "case world: " + err.Error()
			return nil, "skipped"
		}
		local, remote := faultChains(p.RunSeed, pp, a, b)
		id := model.Sha256Hex(local[0].blob())
		ref := "refs/identities/" + id
		bad := func() string {
			head, err := storeChain(cw.pub, local, len(local)-1)
			if err != nil {
				return "store local chain: " + err.Error()
			}
			_ = cw.pub.UpdateRef(ref, head)
			if _, err := cw.victimPull("hub0"); err != nil {
				return "victim pull of its own chain: " + err.Error()
			}
			cw.w.Act(nil)
			head, err = storeChain(cw.adv, remote, len(remote)-1)
			if err != nil {
				return "store remote chain: " + err.Error()
			}
			if err := cw.adv.UpdateRef(ref, head); err != nil {
				return err.Error()
			}
			return ""
		}()
		if bad != "" {
			cw.close()
			res.HarnessErr = bad
			return nil, "skipped"
		}
		before := identChainOf(cw.victim.Raw, id)
		if len(strings.Split(before, ",")) != len(local) || strings.HasPrefix(before, "ERR") {
			cw.close()
			res.HarnessErr = fmt.Sprintf("the victim's chain is %q, %d versions wanted", before, len(local))
			return nil, "skipped"
		}
		c := cw.victim.C
		r0 := c.ReadCount()
		if fault >= 0 {
			c.ArmErr("read", fault, 1)
		}
		outs, pullErr := cw.victimPull("hub1")
		fired := 0
		if fault >= 0 {
			fired = c.DisarmErr()
		} else {
			reads = c.ReadCount() - r0
			if reads > 120 {
				reads = 120
			}
		}
		panics := verifrt.TakePanicsQuiesced(cw.goBase)
		after := identChainOf(cw.victim.Raw, id)
		want := identChainOf(cw.adv, id)
		status := "none"
		for _, o := range outs {
			if o.Id == id {
				status = statusName(o.Status)
			}
		}
		cw.close()
		res.Cases++
		res.Probes["ident_merge_under_read_error_"+map[bool]string{true: "fired", false: "reference"}[fired > 0]]++
		where := fmt.Sprintf("identity chains with %d common versions, %d more locally, %d more on the remote, via %s API, read call %d of the merge failing: ", pp, a, b, st.T, fault)
		for _, pr := range panics {
			vs = append(vs, sim.Violation{Property: p.Property, Kind: "panic", Detail: where + fmt.Sprintf("panic in %s: %s", pr.Site, pr.Value)})
		}
		if after != before && !(a == 0 && after == want) {
			kind := "history-not-append-only"
			if a > 0 && b > 0 {
				kind = "diverged-changed-local"
			}
			vs = append(vs, sim.Violation{Property: p.Property, Kind: kind, Detail: where + fmt.Sprintf("the local chain went from [%s] to [%s] (remote [%s], merge reported %q, pull error %v)", before, after, want, status, pullErr)})
		}
		if len(vs) > 0 {
			return vs, "fault"
		}
	}
	return vs, fmt.Sprintf("reads=%d", reads)
}
