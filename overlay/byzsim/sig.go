package byzsim

import (
	"io"
	"bytes"
	"encoding/json"
	"fmt"
	"os"
	"strings"
	"time"

	"github.com/ProtonMail/go-crypto/openpgp"
	"github.com/ProtonMail/go-crypto/openpgp/armor"
	"github.com/ProtonMail/go-crypto/openpgp/packet"
	"github.com/go-git/go-git/v5/plumbing"
	"github.com/go-git/go-git/v5/plumbing/object"

	"github.com/MichaelMure/git-bug/entities/bug"
	"github.com/MichaelMure/git-bug/entities/identity"
	"github.com/MichaelMure/git-bug/repository"
	"github.com/MichaelMure/git-bug/util/lamport"
	"github.com/MichaelMure/git-bug/zzverif/model"
	"github.com/MichaelMure/git-bug/zzverif/sim"
	"github.com/MichaelMure/git-bug/zzverif/verifrt"
)

// ---- key pool -----------------------------------------------------------------------------

type poolKey struct {
	priv    *packet.PrivateKey
	armored string // private key, armored (what the keyring stores)
	key     *identity.Key
}

var pool []*poolKey

func loadPool() []*poolKey {
	if pool != nil {
		return pool
	}
	for _, arm := range keyPool {
		block, err := armor.Decode(strings.NewReader(arm))
		if err != nil {
			panic(err)
		}
		p, err := packet.Read(block.Body)
		if err != nil {
			panic(err)
		}
		priv := p.(*packet.PrivateKey)
		priv.CreationTime = time.Time{}
		// the public part as git-bug stores it: armored public key inside JSON
		var buf bytes.Buffer
		w, _ := armor.Encode(&buf, openpgp.PublicKeyType, nil)
		if err := priv.PublicKey.Serialize(w); err != nil {
			panic(err)
		}
		w.Close()
		js, _ := json.Marshal(buf.String())
		k := &identity.Key{}
		if err := k.UnmarshalJSON(js); err != nil {
			panic(err)
		}
		pool = append(pool, &poolKey{priv: priv, armored: arm, key: k})
	}
	return pool
}

func (k *poolKey) entity() *openpgp.Entity {
	e := &openpgp.Entity{PrimaryKey: &k.priv.PublicKey, PrivateKey: k.priv, Identities: map[string]*openpgp.Identity{}}
	if err := e.AddUserId("name", "", "", nil); err != nil {
		panic(err)
	}
	return e
}

// ---- scenario ------------------------------------------------------------------------------

// keyEvent: at logical edit time T the identity's key set becomes Keys (indices into the pool).
type keyEvent struct {
	T    uint64
	Keys []int
}

func genKeyHistory(r *sim.Rand) []keyEvent {
	var evs []keyEvent
	t := uint64(0)
	cur := []int{}
	n := r.Range(2, 5)
	early := r.Chance(0.4) // the first key change happens before the repository has any edit clock
	for i := 0; i < n; i++ {
		if !(early && i == 0) {
			t += uint64(r.Range(5, 12))
		}
		switch {
		case len(cur) == 0 || r.Chance(0.4): // add
			cand := r.Intn(3)
			has := false
			for _, c := range cur {
				if c == cand {
					has = true
				}
			}
			if !has {
				cur = append(append([]int{}, cur...), cand)
			} else if len(cur) > 0 {
				cur = append([]int{}, cur[1:]...)
			}
		case r.Chance(0.5): // remove one
			cur = append([]int{}, cur[1:]...)
		default: // rotate
			cur = []int{(cur[0] + 1) % 3}
		}
		evs = append(evs, keyEvent{T: t, Keys: cur})
	}
	return evs
}

// inForce is the reference: keys of the last event whose time is <= T.
func inForce(evs []keyEvent, T uint64) []int {
	var out []int
	for _, e := range evs {
		if e.T <= T {
			out = e.Keys
		}
	}
	return out
}

func contains(s []int, v int) bool {
	for _, x := range s {
		if x == v {
			return true
		}
	}
	return false
}

var sigModes = []string{"right-key", "removed-key", "future-key", "stranger-key", "unsigned", "altered", "gitbug-signed", "smuggled-tree-header"}

func (e *Engine) genSigCases(p *sim.Plan, r *sim.Rand) {
	evs := genKeyHistory(sim.NewRand(sim.Mix(p.RunSeed, 8)))
	id := 0
	// probe times: around every change
	times := map[uint64]bool{1: true}
	for _, ev := range evs {
		if ev.T == 0 {
			times[2] = true
			continue
		}
		times[ev.T-1] = true
		times[ev.T] = true
		times[ev.T+1] = true
		times[ev.T+3] = true
	}
	var ts []uint64
	for t := range times {
		if t >= 1 {
			ts = append(ts, t)
		}
	}
	sortU(ts)
	// one whole history: a commit at every change time, each signed by a key in force THEN
	for _, mode := range []string{"history-right-keys", "history-one-stale-key"} {
		id++
		p.Steps = append(p.Steps, sim.Step{Id: id, Op: "sig", K: mode, N: 1, T: []string{"entity", "cache"}[id%2]})
	}
	for _, t := range ts {
		for _, mode := range sigModes {
			id++
			p.Steps = append(p.Steps, sim.Step{Id: id, Op: "sig", K: mode, N: int(t), T: []string{"entity", "cache"}[id%2]})
		}
	}
	// the same for a commit that carries no operation: the merge commit that joins two branches
	// of somebody else's edits names an author too, and is signed like any other
	for _, t := range ts {
		if t < 4 {
			continue
		}
		for _, mode := range []string{"right-key", "removed-key", "future-key", "stranger-key", "unsigned", "altered"} {
			id++
			p.Steps = append(p.Steps, sim.Step{Id: id, Op: "sig", K: mode, S: "merge", N: int(t), T: []string{"entity", "cache"}[id%2]})
		}
	}
}

func sortU(a []uint64) {
	for i := 1; i < len(a); i++ {
		for j := i; j > 0 && a[j] < a[j-1]; j-- {
			a[j], a[j-1] = a[j-1], a[j]
		}
	}
}

// storeRawCommit writes a commit object with an arbitrary signature through go-git plumbing.
func storeRawCommit(cw *caseWorld, tree repository.Hash, parents []repository.Hash, sig string) (repository.Hash, error) {
	hub := cw.w.Hubs[1].Repo
	c := object.Commit{
		Author:       object.Signature{When: time.Unix(1_690_000_000, 0)},
		Committer:    object.Signature{When: time.Unix(1_690_000_000, 0)},
		TreeHash:     plumbing.NewHash(string(tree)),
		PGPSignature: sig,
	}
	for _, p := range parents {
		c.ParentHashes = append(c.ParentHashes, plumbing.NewHash(string(p)))
	}
	obj := hub.Storer.NewEncodedObject()
	obj.SetType(plumbing.CommitObject)
	if err := c.Encode(obj); err != nil {
		return "", err
	}
	h, err := hub.Storer.SetEncodedObject(obj)
	return repository.Hash(h.String()), err
}

func (e *Engine) sigCase(p *sim.Plan, st *sim.Step, res *sim.RunResult, keep bool) ([]sim.Violation, string) {
	keys := loadPool()
	evs := genKeyHistory(sim.NewRand(sim.Mix(p.RunSeed, 8)))
	T := uint64(st.N)
	cw, err := newCaseWorld(p, st, keep)
	if err != nil {
		res.HarnessErr = "case world: " + err.Error()
		return nil, "skipped"
	}
	defer cw.close()
	var vs []sim.Violation
	add := func(kind, format string, a ...interface{}) {
		vs = append(vs, sim.Violation{Property: p.Property, Kind: kind, Detail: fmt.Sprintf("%scommit at edit time %d, mode %s, key history %v, victim via %s API: ", map[string]string{"merge": "merge "}[st.S], T, st.K, evs, st.T) + fmt.Sprintf(format, a...)})
	}

	// ---- the honest author: identity whose versions declare the key history
	H := cw.honest
	cw.w.Act(H)
	sim.SetRandStep(300)
	author, err := identity.NewIdentity(H.Sim, "Keyed Author", "keyed@example.org")
	if err != nil {
		res.HarnessErr = err.Error()
		return nil, "skipped"
	}
	if err := author.Commit(H.Sim); err != nil {
		res.HarnessErr = err.Error()
		return nil, "skipped"
	}
	// somebody without keys, whose commits need no signature
	plain, err := identity.NewIdentity(H.Sim, "Plain Author", "plain@example.org")
	if err == nil {
		err = plain.Commit(H.Sim)
	}
	if err != nil {
		res.HarnessErr = err.Error()
		return nil, "skipped"
	}
	// the victim learns the author before any key is declared, and later receives the whole key
	// history in one pull: several versions fast-forwarded at once
	if (st.Id/2)%2 == 0 { // (the parity of the id already chooses the API)
		if _, err := identity.Push(H.Sim, "hub0"); err != nil {
			res.HarnessErr = "push identity: " + err.Error()
			return nil, "skipped"
		}
		if _, err := cw.victimPull("hub0"); err != nil {
			res.HarnessErr = "victim pull identities: " + err.Error()
			return nil, "skipped"
		}
		cw.w.Act(H)
		res.Probes["victim_knew_author_before_keys"]++
	}
	for i, ev := range evs {
		sim.SetRandStep(uint64(310 + i))
		H.Wall += 1000
		// the version records the clocks at its creation: bring the edit clock to ev.T. A change
		// at time 0 is made before the repository has any clock: the version then carries no
		// time for it and counts from the previous version's time (0).
		if ev.T > 0 {
			if err := H.Sim.Witness("bugs-edit", lamportTime(ev.T)); err != nil {
				res.HarnessErr = err.Error()
				return nil, "skipped"
			}
		}
		ks := ev.Keys
		err := author.Mutate(H.Sim, func(m *identity.Mutator) {
			m.Keys = nil
			for _, k := range ks {
				m.Keys = append(m.Keys, keys[k].key.Clone())
			}
			m.Email = fmt.Sprintf("keyed+%d@example.org", i) // make sure a version is created
		})
		if err != nil {
			res.HarnessErr = "mutate: " + err.Error()
			return nil, "skipped"
		}
		if err := author.Commit(H.Sim); err != nil {
			res.HarnessErr = "commit identity: " + err.Error()
			return nil, "skipped"
		}
	}
	// sanity of the set-up against the reference: the stored versions carry the intended times
	chain, err := model.ReadIdentity(H.Raw, "refs/identities/"+string(author.Id()))
	if err != nil || len(chain) != len(evs)+1 {
		res.HarnessErr = fmt.Sprintf("identity chain: %v (%d versions)", err, len(chain))
		return nil, "skipped"
	}
	for i, ev := range evs {
		if _, has := chain[i+1].Times["bugs-edit"]; ev.T == 0 && !has {
			res.Probes["key_version_without_clock_entry"]++
			continue
		}
		if chain[i+1].Times["bugs-edit"] != ev.T {
			res.HarnessErr = fmt.Sprintf("version %d has bugs-edit %d, wanted %d", i+1, chain[i+1].Times["bugs-edit"], ev.T)
			return nil, "skipped"
		}
	}
	if _, err := identity.Push(H.Sim, "hub0"); err != nil {
		res.HarnessErr = "push identity: " + err.Error()
		return nil, "skipped"
	}
	if _, err := identity.Push(H.Sim, "hub1"); err != nil {
		res.HarnessErr = "push identity: " + err.Error()
		return nil, "skipped"
	}
	if _, err := cw.victimPull("hub0"); err != nil {
		res.HarnessErr = "victim pull identities: " + err.Error()
		return nil, "skipped"
	}
	cw.w.Act(nil)

	force := inForce(evs, T)
	// pick the signing key for the mode
	pick := -1
	switch st.K {
	case "right-key", "altered", "gitbug-signed", "smuggled-tree-header":
		if len(force) == 0 {
			return nil, "skipped" // no key in force: nothing to sign with "rightly"
		}
		pick = force[0]
	case "removed-key":
		for _, ev := range evs {
			if ev.T <= T {
				for _, k := range ev.Keys {
					if !contains(force, k) {
						pick = k
					}
				}
			}
		}
		if pick < 0 {
			return nil, "skipped"
		}
	case "future-key":
		for _, ev := range evs {
			if ev.T > T {
				for _, k := range ev.Keys {
					if !contains(force, k) && pick < 0 {
						pick = k
					}
				}
			}
		}
		if pick < 0 {
			return nil, "skipped"
		}
	case "stranger-key":
		pick = 4
	}
	if strings.HasPrefix(st.K, "history-") {
		pick = 0
	}

	authorId := string(author.Id())
	if strings.HasPrefix(st.K, "history-") {
		return e.sigHistoryCase(p, st, res, cw, evs, authorId)
	}
	g := &gen{r: sim.NewRand(sim.Mix(p.RunSeed, uint64(st.Id))), wall: 1_690_100_000, authors: []string{authorId}}
	var bugId string
	if st.K == "gitbug-signed" {
		// the legitimate path: git-bug itself signs with the key found in the keyring
		cw.w.Act(H)
		_ = H.Keys.Set(repository.Item{Key: keys[pick].key.Public().KeyIdString(), Data: []byte(keys[pick].armored)})
		// the author as the honest replica sees it at time T: re-read, keeping versions up to T only is
		// not possible through the API, so the commit is made while the clock stands at T-1 -> edit time T
		if T < 2 {
			return nil, "skipped"
		}
		// a fresh honest replica whose clock is exactly T-1 and whose identity chain ends at the version in force
		lastIdx := 0
		for i, ev := range evs {
			if ev.T <= T {
				lastIdx = i + 1
			}
		}
		if lastIdx != len(evs) {
			return nil, "skipped" // git-bug signs with the keys of the LAST version; only meaningful when that one is in force
		}
		sim.SetRandStep(400)
		if cur, _ := H.Raw.GetOrCreateClock("bugs-edit"); uint64(cur.Time()) > T-1 {
			return nil, "skipped"
		}
		_ = H.Sim.Witness("bugs-edit", lamportTime(T-1))
		a2, err := identity.ReadLocal(H.Sim, author.Id())
		if err != nil {
			res.HarnessErr = err.Error()
			return nil, "skipped"
		}
		b, _, err := bug.Create(a2, H.Wall, "signed by git-bug", "msg", nil, nil)
		if err != nil {
			res.HarnessErr = err.Error()
			return nil, "skipped"
		}
		if err := b.Commit(H.Sim); err != nil {
			res.HarnessErr = "signed commit: " + err.Error()
			return nil, "skipped"
		}
		bugId = string(b.Id())
		ent, err := model.ReadEntity(H.Raw, "refs/bugs/"+bugId)
		if err != nil || !ent.Root.Signed || ent.Root.EditTime != T {
			res.HarnessErr = fmt.Sprintf("git-bug did not produce a signed commit at time %d: %v signed=%v edit=%d", T, err, ent != nil && ent.Root.Signed, ent.Root.EditTime)
			return nil, "skipped"
		}
		if _, err := bug.Push(H.Sim, "hub1"); err != nil {
			res.HarnessErr = "push: " + err.Error()
			return nil, "skipped"
		}
		cw.w.Act(nil)
	} else if st.S == "merge" {
		// crafted: root and two branches by the author without keys, joined at edit time T by a
		// commit without operations in the name of the keyed author
		plainId := string(plain.Id())
		rootN := &node{Spec: model.PackSpec{Author: plainId, Version: 4, Edit: 1, Create: 1, Ops: []json.RawMessage{g.createOp()}}}
		bugId = model.Sha256Hex(rootN.Spec.Ops[0])
		comments := []string{bugId}
		c1 := &node{Spec: model.PackSpec{Author: plainId, Version: 4, Edit: 2, Ops: []json.RawMessage{g.editOp(&comments)}}}
		c2 := &node{Spec: model.PackSpec{Author: plainId, Version: 4, Edit: 3, Ops: []json.RawMessage{g.editOp(&comments)}}}
		rh, err := model.StoreCommitOf(cw.adv, rootN.entries())
		var h1, h2 repository.Hash
		if err == nil {
			h1, err = model.StoreCommitOf(cw.adv, c1.entries(), rh)
		}
		if err == nil {
			h2, err = model.StoreCommitOf(cw.adv, c2.entries(), rh)
		}
		if err != nil {
			res.HarnessErr = "store branches: " + err.Error()
			return nil, "skipped"
		}
		mg := &node{Spec: model.PackSpec{Author: authorId, Version: 4, Edit: T}}
		tree, err := model.StoreEntries(cw.adv, mg.entries())
		if err != nil {
			res.HarnessErr = err.Error()
			return nil, "skipped"
		}
		var commit repository.Hash
		switch st.K {
		case "unsigned":
			commit, err = cw.adv.StoreCommit(tree, h1, h2)
		case "altered":
			// a valid signature made for the same tree joining the branches the other way round
			signed, e2 := cw.adv.StoreSignedCommit(tree, keys[pick].entity(), h2, h1)
			if e2 != nil {
				res.HarnessErr = e2.Error()
				return nil, "skipped"
			}
			sc, e3 := cw.w.Hubs[1].Repo.CommitObject(plumbing.NewHash(string(signed)))
			if e3 != nil {
				res.HarnessErr = e3.Error()
				return nil, "skipped"
			}
			commit, err = storeRawCommit(cw, tree, []repository.Hash{h1, h2}, sc.PGPSignature)
		default:
			commit, err = cw.adv.StoreSignedCommit(tree, keys[pick].entity(), h1, h2)
		}
		if err != nil {
			res.HarnessErr = "store merge commit: " + err.Error()
			return nil, "skipped"
		}
		if err := cw.adv.UpdateRef("refs/bugs/"+bugId, commit); err != nil {
			res.HarnessErr = err.Error()
			return nil, "skipped"
		}
		res.Probes["sig_on_merge_commit"]++
	} else {
		// crafted: one root commit at edit time T
		root := &node{Spec: model.PackSpec{Author: authorId, Version: 4, Edit: T, Create: 1, Ops: []json.RawMessage{g.createOp()}}}
		bugId = model.Sha256Hex(root.Spec.Ops[0])
		tree, err := model.StoreEntries(cw.adv, root.entries())
		if err != nil {
			res.HarnessErr = err.Error()
			return nil, "skipped"
		}
		var commit repository.Hash
		switch st.K {
		case "unsigned":
			commit, err = cw.adv.StoreCommit(tree)
		case "altered":
			// a valid signature over another commit (other tree), transplanted
			other := &node{Spec: model.PackSpec{Author: authorId, Version: 4, Edit: T, Create: 2, Ops: root.Spec.Ops}}
			otree, _ := model.StoreEntries(cw.adv, other.entries())
			signed, e2 := cw.adv.StoreSignedCommit(otree, keys[pick].entity())
			if e2 != nil {
				res.HarnessErr = e2.Error()
				return nil, "skipped"
			}
			sc, e3 := cw.w.Hubs[1].Repo.CommitObject(plumbing.NewHash(string(signed)))
			if e3 != nil {
				res.HarnessErr = e3.Error()
				return nil, "skipped"
			}
			commit, err = storeRawCommit(cw, tree, nil, sc.PGPSignature)
		case "smuggled-tree-header":
			// a genuine signature over another tree; the raw commit gets a second "tree" header AFTER
			// the signature block (git and go-git let the last one win), pointing at the forged tree
			other := &node{Spec: model.PackSpec{Author: authorId, Version: 4, Edit: T, Create: 3, Ops: []json.RawMessage{g.createOp()}}}
			otree, _ := model.StoreEntries(cw.adv, other.entries())
			signed, e2 := cw.adv.StoreSignedCommit(otree, keys[pick].entity())
			if e2 != nil {
				res.HarnessErr = e2.Error()
				return nil, "skipped"
			}
			st1 := cw.w.Hubs[1].Repo.Storer
			eo, e3 := st1.EncodedObject(plumbing.CommitObject, plumbing.NewHash(string(signed)))
			if e3 != nil {
				res.HarnessErr = e3.Error()
				return nil, "skipped"
			}
			rd, _ := eo.Reader()
			rawCommit, _ := io.ReadAll(rd)
			_ = rd.Close()
			forged := strings.Replace(string(rawCommit), "\n\n", "\ntree "+string(tree)+"\n\n", 1)
			no := st1.NewEncodedObject()
			no.SetType(plumbing.CommitObject)
			wr, _ := no.Writer()
			_, _ = wr.Write([]byte(forged))
			_ = wr.Close()
			fh, e4 := st1.SetEncodedObject(no)
			if e4 != nil {
				res.HarnessErr = e4.Error()
				return nil, "skipped"
			}
			commit = repository.Hash(fh.String())
		default:
			commit, err = cw.adv.StoreSignedCommit(tree, keys[pick].entity())
		}
		if err != nil {
			res.HarnessErr = "store commit: " + err.Error()
			return nil, "skipped"
		}
		if err := cw.adv.UpdateRef("refs/bugs/"+bugId, commit); err != nil {
			res.HarnessErr = err.Error()
			return nil, "skipped"
		}
	}

	outs, pullErr := cw.victimPull("hub1")
	panics := verifrt.TakePanicsQuiesced(cw.goBase)
	for _, pr := range panics {
		add("panic", "panic in %s: %s", pr.Site, pr.Value)
		if os.Getenv("VERIF_DEBUG") != "" {
			fmt.Fprintln(os.Stderr, pr.Stack)
		}
	}
	if pullErr != nil && len(panics) == 0 {
		res.HarnessErr = "victim pull: " + pullErr.Error()
		return nil, "skipped"
	}
	status := "none"
	reason := ""
	for _, o := range outs {
		if o.Id == bugId {
			status = statusName(o.Status)
			reason = o.Reason
		}
	}
	accepted := status == "new"
	wantAccept := len(force) == 0 || st.K == "right-key" || st.K == "gitbug-signed"
	res.Probes[fmt.Sprintf("sig_%s_keys%d_%s", st.K, len(force), status)]++
	if len(panics) > 0 {
		return vs, "panic"
	}
	switch {
	case wantAccept && !accepted:
		if len(force) == 0 {
			add("unsigned-refused-without-key", "no key is in force at time %d but the commit was refused: %s %s", T, status, reason)
		} else {
			add("good-signature-refused", "signed by key %d which is in force at time %d (keys in force %v) but refused: %s %s", pick, T, force, status, reason)
		}
	case !wantAccept && accepted:
		if st.K == "unsigned" {
			add("unsigned-accepted-with-key-in-force", "keys %v are in force at time %d but an unsigned commit was accepted", force, T)
		} else {
			add("bad-signature-accepted", "keys %v are in force at time %d; a commit %s (key %d) was accepted", force, T, st.K, pick)
		}
	}
	return vs, st.K + "/" + status
}

func lamportTime(t uint64) lamport.Time { return lamport.Time(t) }

// sigHistoryCase: a linear history with a commit at every key change time (and in between),
// each signed by a key in force at ITS time; old commits must stay valid after their key was
// removed. Variant "one-stale-key": one commit is signed by a key that is no longer / not yet
// in force at its time -> the whole history must be refused.
func (e *Engine) sigHistoryCase(p *sim.Plan, st *sim.Step, res *sim.RunResult, cw *caseWorld, evs []keyEvent, authorId string) ([]sim.Violation, string) {
	keys := loadPool()
	var vs []sim.Violation
	add := func(kind, format string, a ...interface{}) {
		vs = append(vs, sim.Violation{Property: p.Property, Kind: kind, Detail: fmt.Sprintf("history mode %s, key history %v, victim via %s API: ", st.K, evs, st.T) + fmt.Sprintf(format, a...)})
	}
	g := &gen{r: sim.NewRand(sim.Mix(p.RunSeed, uint64(st.Id))), wall: 1_690_100_000, authors: []string{authorId}}
	comments := []string{}
	var times []uint64
	times = append(times, 1)
	for _, ev := range evs {
		if ev.T == 0 {
			times = append(times, 3) // the key set of time 0 is in force at any later time
			continue
		}
		times = append(times, ev.T, ev.T+2)
	}
	sortU(times)
	uniq := times[:1]
	for _, t := range times[1:] {
		if t != uniq[len(uniq)-1] {
			uniq = append(uniq, t)
		}
	}
	times = uniq
	stalePos := -1
	if st.K == "history-one-stale-key" {
		// find a commit whose time has keys in force and for which some pool key is NOT in force
		for i, t := range times {
			f := inForce(evs, t)
			if len(f) > 0 && len(f) < 3 && i > 0 {
				stalePos = i
			}
		}
		if stalePos < 0 {
			return nil, "skipped"
		}
	}
	var parent repository.Hash
	var bugId string
	signedCount := 0
	for i, t := range times {
		spec := model.PackSpec{Author: authorId, Version: 4, Edit: t}
		if i == 0 {
			spec.Create = 1
			cr := g.createOp()
			comments = append(comments, model.Sha256Hex(cr))
			spec.Ops = []json.RawMessage{cr}
			bugId = model.Sha256Hex(cr)
		} else {
			spec.Ops = []json.RawMessage{g.editOp(&comments)}
		}
		tree, err := model.StoreEntries(cw.adv, spec.Entries())
		if err != nil {
			res.HarnessErr = err.Error()
			return nil, "skipped"
		}
		var ps []repository.Hash
		if parent != "" {
			ps = append(ps, parent)
		}
		f := inForce(evs, t)
		var c repository.Hash
		switch {
		case i == stalePos:
			wrong := 0
			for contains(f, wrong) {
				wrong++
			}
			c, err = cw.adv.StoreSignedCommit(tree, keys[wrong].entity(), ps...)
		case len(f) > 0:
			c, err = cw.adv.StoreSignedCommit(tree, keys[f[len(f)-1]].entity(), ps...)
			signedCount++
		default:
			c, err = cw.adv.StoreCommit(tree, ps...)
		}
		if err != nil {
			res.HarnessErr = err.Error()
			return nil, "skipped"
		}
		parent = c
	}
	if err := cw.adv.UpdateRef("refs/bugs/"+bugId, parent); err != nil {
		res.HarnessErr = err.Error()
		return nil, "skipped"
	}
	outs, pullErr := cw.victimPull("hub1")
	panics := verifrt.TakePanicsQuiesced(cw.goBase)
	for _, pr := range panics {
		add("panic", "panic in %s: %s", pr.Site, pr.Value)
	}
	if pullErr != nil && len(panics) == 0 {
		res.HarnessErr = "victim pull: " + pullErr.Error()
		return nil, "skipped"
	}
	status, reason := "none", ""
	for _, o := range outs {
		if o.Id == bugId {
			status, reason = statusName(o.Status), o.Reason
		}
	}
	res.Probes[fmt.Sprintf("sig_%s_%s", st.K, status)]++
	if len(panics) > 0 {
		return vs, "panic"
	}
	if st.K == "history-right-keys" && status != "new" {
		add("good-signature-refused", "a history of %d commits (%d signed), each signed by a key in force at its own logical time, was refused: %s %s", len(times), signedCount, status, reason)
	}
	if st.K == "history-one-stale-key" && status == "new" {
		add("bad-signature-accepted", "commit %d (time %d) is signed by a key not in force at that time, yet the history was accepted", stalePos, times[stalePos])
	}
	return vs, st.K + "/" + status
}
