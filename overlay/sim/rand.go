// Package sim is the simulator core: PRNG, storage seam (SimRepo), sim:// transport,
// worlds of replicas and hubs, event log, run reports, shrinking and the check driver.
package sim

import (
	crand "crypto/rand"
	"encoding/binary"
	"io"
	"sync"
)

// Rand is a splitmix64 generator: tiny, fast, and its whole state is one integer.
type Rand struct {
	s   uint64
	cnt map[string]int // per-prefix enumeration counters when used as a ListRefs permutation source (permFor)
}

func NewRand(seed uint64) *Rand { return &Rand{s: seed} }

func (r *Rand) U64() uint64 {
	r.s += 0x9e3779b97f4a7c15
	z := r.s
	z = (z ^ (z >> 30)) * 0xbf58476d1ce4e5b9
	z = (z ^ (z >> 27)) * 0x94d049bb133111eb
	return z ^ (z >> 31)
}

// Mix derives an independent seed from two integers.
func Mix(a, b uint64) uint64 {
	r := Rand{s: a ^ (b+0x632be59bd9b4e019)*0xd6e8feb86659fd93}
	r.U64()
	return r.U64()
}

func (r *Rand) Intn(n int) int {
	if n <= 0 {
		return 0
	}
	return int(r.U64() % uint64(n))
}

// Range returns an int in [lo, hi].
func (r *Rand) Range(lo, hi int) int {
	if hi <= lo {
		return lo
	}
	return lo + r.Intn(hi-lo+1)
}

func (r *Rand) Float() float64 { return float64(r.U64()>>11) / (1 << 53) }

func (r *Rand) Chance(p float64) bool { return r.Float() < p }

func (r *Rand) Pick(ss []string) string {
	if len(ss) == 0 {
		return ""
	}
	return ss[r.Intn(len(ss))]
}

// Weighted picks an index according to weights.
func (r *Rand) Weighted(w []int) int {
	t := 0
	for _, x := range w {
		t += x
	}
	if t == 0 {
		return 0
	}
	k := r.Intn(t)
	for i, x := range w {
		if k < x {
			return i
		}
		k -= x
	}
	return len(w) - 1
}

func (r *Rand) Perm(n int) []int {
	p := make([]int, n)
	for i := range p {
		p[i] = i
	}
	for i := n - 1; i > 0; i-- {
		j := r.Intn(i + 1)
		p[i], p[j] = p[j], p[i]
	}
	return p
}

// ---- deterministic replacement of crypto/rand.Reader ------------------------------

type ctrReader struct {
	mu   sync.Mutex
	key  uint64
	step uint64
	draw uint64
}

var theReader = &ctrReader{}
var origReader io.Reader

// InstallRandReader replaces crypto/rand.Reader by a counter-mode stream keyed by
// (seed, step, draw index): nonces of one step do not depend on other steps, so plans
// stay meaningful when steps are deleted during shrinking.
func InstallRandReader(seed uint64) {
	if origReader == nil {
		origReader = crand.Reader
	}
	theReader.mu.Lock()
	theReader.key = seed
	theReader.step = 0
	theReader.draw = 0
	theReader.mu.Unlock()
	crand.Reader = theReader
}

// SetRandStep selects the sub-stream of a step.
func SetRandStep(step uint64) {
	theReader.mu.Lock()
	theReader.step = step
	theReader.draw = 0
	theReader.mu.Unlock()
}

func (c *ctrReader) Read(p []byte) (int, error) {
	c.mu.Lock()
	defer c.mu.Unlock()
	var buf [8]byte
	for i := 0; i < len(p); i += 8 {
		c.draw++
		v := Mix(Mix(c.key, c.step), c.draw)
		binary.LittleEndian.PutUint64(buf[:], v)
		copy(p[i:], buf[:])
	}
	return len(p), nil
}
