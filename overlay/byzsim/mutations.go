package byzsim

import (
	"encoding/json"
	"fmt"
	"sort"
	"strings"

	"github.com/MichaelMure/git-bug/zzverif/model"
)

// verdicts: "reject" = the statement clearly names the deviation: the entity must be
// reported invalid and nothing local may change; "accept" = a control, the history is
// valid and must be merged; "either" = reject as above, or accept and then the local
// entity must be readable and valid.
type mutation struct {
	Name    string
	Level   string // "commit" (position = commit index), "op" (position = commit*100+op), "ref" (position ignored)
	Verdict string
	Props   string // which properties own it: "C07", "C03"
	Applies func(h *history, c, o int) bool
	Apply   func(h *history, c, o int)
}

func always(h *history, c, o int) bool { return true }
func isRoot(h *history, c, o int) bool { return c == 0 }
func notRoot(h *history, c, o int) bool { return c != 0 }
func hasOps(h *history, c, o int) bool { return len(h.Nodes[c].Spec.Ops) > 0 }
func isMerge(h *history, c, o int) bool { return len(h.Nodes[c].Parents) > 1 }
func nonMergeNonRoot(h *history, c, o int) bool { return len(h.Nodes[c].Parents) == 1 }

// editEntries gives a mutable copy of the documented entries of commit c.
func editEntries(h *history, c int) []model.Entry {
	n := h.Nodes[c]
	if n.Entries == nil {
		n.Entries = n.Spec.Entries()
	}
	return n.Entries
}

func setEntries(h *history, c int, es []model.Entry) { h.Nodes[c].Entries = es }

func dropEntry(es []model.Entry, prefix string) []model.Entry {
	var out []model.Entry
	for _, e := range es {
		if !strings.HasPrefix(e.Name, prefix) {
			out = append(out, e)
		}
	}
	return out
}

func renameEntry(es []model.Entry, prefix, name string) []model.Entry {
	out := append([]model.Entry{}, es...)
	for i := range out {
		if strings.HasPrefix(out[i].Name, prefix) {
			out[i].Name = name
		}
	}
	return out
}

func setBlob(h *history, c int, data []byte) {
	es := editEntries(h, c)
	out := append([]model.Entry{}, es...)
	for i := range out {
		if out[i].Name == "ops" {
			out[i].Data = data
		}
	}
	setEntries(h, c, out)
}

// blobWith re-renders the ops blob of commit c after editing its top-level JSON object.
func blobWith(h *history, c int, f func(top map[string]json.RawMessage)) []byte {
	blob := model.OpsBlob(h.Nodes[c].Spec.Author, h.Nodes[c].Spec.Ops)
	var top map[string]json.RawMessage
	_ = json.Unmarshal(blob, &top)
	f(top)
	b, _ := json.Marshal(top)
	return b
}

// opWith edits one operation's JSON object and updates the spec (so ids follow).
func opWith(h *history, c, o int, f func(op map[string]interface{})) {
	var op map[string]interface{}
	_ = json.Unmarshal(h.Nodes[c].Spec.Ops[o], &op)
	f(op)
	b, _ := json.Marshal(op)
	h.Nodes[c].Spec.Ops[o] = b
}

func rawOp(h *history, c, o int, raw string) { h.Nodes[c].Spec.Ops[o] = json.RawMessage(raw) }

func opType(h *history, c, o int) int {
	var t struct {
		Type int `json:"type"`
	}
	_ = json.Unmarshal(h.Nodes[c].Spec.Ops[o], &t)
	return t.Type
}

var catalogue []mutation

func add(m mutation) { catalogue = append(catalogue, m) }

func init() {
	// ---- controls
	add(mutation{Name: "none", Level: "commit", Verdict: "accept", Props: "C07 C03", Applies: isRoot, Apply: func(h *history, c, o int) {}})
	add(mutation{Name: "clock-jump-1000-control", Level: "commit", Verdict: "accept", Props: "C03", Applies: nonMergeNonRoot, Apply: func(h *history, c, o int) {
		bump(h, c, 1000)
	}})
	add(mutation{Name: "merge-after-long-time-control", Level: "commit", Verdict: "accept", Props: "C03", Applies: isMerge, Apply: func(h *history, c, o int) {
		bump(h, c, 5_000_000) // merge commits are exempt from the jump rule
	}})
	add(mutation{Name: "equal-edit-times-concurrent-control", Level: "commit", Verdict: "accept", Props: "C03", Applies: func(h *history, c, o int) bool {
		return concurrentPartner(h, c) >= 0
	}, Apply: func(h *history, c, o int) {
		p := concurrentPartner(h, c)
		// give both concurrent commits the same edit time, keeping ancestry consistent
		e := h.Nodes[c].Spec.Edit
		if h.Nodes[p].Spec.Edit > e {
			e = h.Nodes[p].Spec.Edit
		}
		setEditKeepOrder(h, c, e)
		setEditKeepOrder(h, p, e)
	}})

	// merge shapes git-bug's own merge never writes but the format allows: a merge one of whose
	// parents is an ancestor of the other, listed first or last, and a merge with its parents swapped
	for _, first := range []bool{true, false} {
		first := first
		name := "redundant-merge-ancestor-listed-last-control"
		if first {
			name = "redundant-merge-ancestor-listed-first-control"
		}
		add(mutation{Name: name, Level: "commit", Verdict: "accept", Props: "C03 C07", Applies: func(h *history, c, o int) bool {
			return c != h.head()
		}, Apply: func(h *history, c, o int) {
			last := h.head()
			ps := []int{last, c}
			if first {
				ps = []int{c, last}
			}
			h.Nodes = append(h.Nodes, &node{Spec: model.PackSpec{Author: h.Nodes[0].Spec.Author, Version: 4, Edit: h.maxEdit() + 1}, Parents: ps})
		}})
	}
	add(mutation{Name: "merge-parents-swapped-control", Level: "commit", Verdict: "accept", Props: "C03", Applies: isMerge, Apply: func(h *history, c, o int) {
		ps := h.Nodes[c].Parents
		ps[0], ps[len(ps)-1] = ps[len(ps)-1], ps[0]
	}})

	// ---- tree entries
	add(mutation{Name: "ops-entry-missing", Level: "commit", Verdict: "reject", Props: "C07", Applies: hasOps, Apply: func(h *history, c, o int) {
		setEntries(h, c, dropEntry(editEntries(h, c), "ops"))
	}})
	add(mutation{Name: "ops-entry-is-a-tree", Level: "commit", Verdict: "reject", Props: "C07", Applies: always, Apply: func(h *history, c, o int) {
		es := append([]model.Entry{}, editEntries(h, c)...)
		for i := range es {
			if es[i].Name == "ops" {
				es[i] = model.Entry{Name: "ops", Kind: "tree", Sub: []model.Entry{{Name: "x", Kind: "empty"}}}
			}
		}
		setEntries(h, c, es)
	}})
	add(mutation{Name: "version-entry-missing", Level: "commit", Verdict: "reject", Props: "C07", Applies: always, Apply: func(h *history, c, o int) {
		setEntries(h, c, dropEntry(editEntries(h, c), "version-"))
	}})
	for _, v := range []string{"version-3", "version-5", "version-x", "version-99999999999999999999999", "version--4", "version-0"} {
		v := v
		add(mutation{Name: "format-" + v, Level: "commit", Verdict: "reject", Props: "C07", Applies: always, Apply: func(h *history, c, o int) {
			setEntries(h, c, renameEntry(editEntries(h, c), "version-", v))
		}})
	}
	add(mutation{Name: "version-entry-duplicated-conflicting", Level: "commit", Verdict: "either", Props: "C07", Applies: always, Apply: func(h *history, c, o int) {
		setEntries(h, c, append(append([]model.Entry{}, editEntries(h, c)...), model.Entry{Name: "version-3", Kind: "empty"}))
	}})
	add(mutation{Name: "edit-clock-missing", Level: "commit", Verdict: "reject", Props: "C07 C03", Applies: always, Apply: func(h *history, c, o int) {
		setEntries(h, c, dropEntry(editEntries(h, c), "edit-clock-"))
	}})
	for _, v := range []string{"edit-clock-abc", "edit-clock-18446744073709551616", "edit-clock-0", "edit-clock--1", "edit-clock-"} {
		v := v
		add(mutation{Name: "clock-" + v, Level: "commit", Verdict: "reject", Props: "C07", Applies: always, Apply: func(h *history, c, o int) {
			setEntries(h, c, renameEntry(editEntries(h, c), "edit-clock-", v))
		}})
	}
	add(mutation{Name: "edit-clock-duplicated", Level: "commit", Verdict: "either", Props: "C07", Applies: always, Apply: func(h *history, c, o int) {
		setEntries(h, c, append(append([]model.Entry{}, editEntries(h, c)...), model.Entry{Name: fmt.Sprintf("edit-clock-%d", h.Nodes[c].Spec.Edit+1), Kind: "empty"}))
	}})
	add(mutation{Name: "create-clock-missing-on-root", Level: "commit", Verdict: "reject", Props: "C07 C03", Applies: isRoot, Apply: func(h *history, c, o int) {
		setEntries(h, c, dropEntry(editEntries(h, c), "create-clock-"))
	}})
	add(mutation{Name: "create-clock-nonnumeric", Level: "commit", Verdict: "reject", Props: "C07", Applies: isRoot, Apply: func(h *history, c, o int) {
		setEntries(h, c, renameEntry(editEntries(h, c), "create-clock-", "create-clock-zz"))
	}})
	add(mutation{Name: "create-clock-on-non-root", Level: "commit", Verdict: "either", Props: "C07", Applies: notRoot, Apply: func(h *history, c, o int) {
		setEntries(h, c, append(append([]model.Entry{}, editEntries(h, c)...), model.Entry{Name: "create-clock-7", Kind: "empty"}))
	}})
	add(mutation{Name: "extra-unknown-entry", Level: "commit", Verdict: "either", Props: "C07", Applies: always, Apply: func(h *history, c, o int) {
		setEntries(h, c, append(append([]model.Entry{}, editEntries(h, c)...), model.Entry{Name: "zz-unknown", Kind: "blob", Data: []byte("hello")}))
	}})
	add(mutation{Name: "empty-tree", Level: "commit", Verdict: "reject", Props: "C07", Applies: always, Apply: func(h *history, c, o int) {
		setEntries(h, c, []model.Entry{})
	}})

	// ---- ops blob as a whole
	for name, data := range map[string]string{
		"blob-not-json":   "this is not json",
		"blob-truncated":  `{"author":{"id":"`,
		"blob-array":      `[1,2,3]`,
		"blob-null":       `null`,
		"blob-number":     `42`,
		"blob-empty":      ``,
		"blob-deep-nest":  strings.Repeat("[", 5000) + strings.Repeat("]", 5000),
		"blob-huge-number": `{"author":{"id":1e999},"ops":[]}`,
	} {
		data := data
		add(mutation{Name: name, Level: "commit", Verdict: "reject", Props: "C07", Applies: hasOps, Apply: func(h *history, c, o int) {
			setBlob(h, c, []byte(data))
		}})
	}
	add(mutation{Name: "author-missing", Level: "commit", Verdict: "reject", Props: "C07", Applies: hasOps, Apply: func(h *history, c, o int) {
		setBlob(h, c, blobWith(h, c, func(top map[string]json.RawMessage) { delete(top, "author") }))
	}})
	for name, val := range map[string]string{
		"author-number":           `5`,
		"author-null":             `null`,
		"author-id-number":        `{"id":5}`,
		"author-id-not-an-id":     `{"id":"xyz"}`,
		"author-unknown-identity": `{"id":"` + strings.Repeat("ab", 32) + `"}`,
		"author-string":           `"me"`,
	} {
		val := val
		add(mutation{Name: name, Level: "commit", Verdict: "reject", Props: "C07", Applies: hasOps, Apply: func(h *history, c, o int) {
			setBlob(h, c, blobWith(h, c, func(top map[string]json.RawMessage) { top["author"] = json.RawMessage(val) }))
		}})
	}
	add(mutation{Name: "ops-key-missing-on-root", Level: "commit", Verdict: "reject", Props: "C07", Applies: isRoot, Apply: func(h *history, c, o int) {
		setBlob(h, c, blobWith(h, c, func(top map[string]json.RawMessage) { delete(top, "ops") }))
		h.Nodes[c].Spec.Ops = nil
	}})
	add(mutation{Name: "ops-empty-on-root", Level: "commit", Verdict: "reject", Props: "C07", Applies: isRoot, Apply: func(h *history, c, o int) {
		h.Nodes[c].Spec.Ops = []json.RawMessage{}
	}})
	add(mutation{Name: "ops-empty-on-non-merge", Level: "commit", Verdict: "either", Props: "C07", Applies: nonMergeNonRoot, Apply: func(h *history, c, o int) {
		h.Nodes[c].Spec.Ops = []json.RawMessage{}
	}})
	for name, val := range map[string]string{"ops-not-array": `{"a":1}`, "ops-string": `"ops"`, "ops-array-of-numbers": `[1,2]`, "ops-array-of-null": `[null]`} {
		val := val
		add(mutation{Name: name, Level: "commit", Verdict: "reject", Props: "C07", Applies: hasOps, Apply: func(h *history, c, o int) {
			setBlob(h, c, blobWith(h, c, func(top map[string]json.RawMessage) { top["ops"] = json.RawMessage(val) }))
		}})
	}

	// ---- single operations
	for name, t := range map[string]interface{}{"op-type-unknown-99": 99, "op-type-negative": -1, "op-type-zero": 0, "op-type-string": "create", "op-type-float": 3.5, "op-type-huge": 1e30} {
		t := t
		add(mutation{Name: name, Level: "op", Verdict: "reject", Props: "C07", Applies: hasOps, Apply: func(h *history, c, o int) {
			opWith(h, c, o, func(op map[string]interface{}) { op["type"] = t })
		}})
	}
	add(mutation{Name: "op-type-missing", Level: "op", Verdict: "reject", Props: "C07", Applies: hasOps, Apply: func(h *history, c, o int) {
		opWith(h, c, o, func(op map[string]interface{}) { delete(op, "type") })
	}})
	add(mutation{Name: "op-not-an-object", Level: "op", Verdict: "reject", Props: "C07", Applies: hasOps, Apply: func(h *history, c, o int) { rawOp(h, c, o, `"op"`) }})
	for name, kv := range map[string][2]interface{}{
		"op-timestamp-string":  {"timestamp", "now"},
		"op-nonce-number":      {"nonce", 5},
		"op-nonce-bad-base64":  {"nonce", "!!!!"},
		"op-metadata-array":    {"metadata", []int{1}},
		"op-metadata-values":   {"metadata", map[string]int{"a": 1}},
		"op-title-number":      {"title", 5},
		"op-message-object":    {"message", map[string]int{"a": 1}},
		"op-files-string":      {"files", "x"},
		"op-files-numbers":     {"files", []int{1, 2}},
		"op-status-string":     {"status", "open"},
		"op-added-string":      {"added", "bug"},
		"op-target-number":     {"target", 7},
		"op-new-metadata-list": {"new_metadata", []string{"a"}},
	} {
		kv := kv
		add(mutation{Name: name, Level: "op", Verdict: "either", Props: "C07", Applies: hasOps, Apply: func(h *history, c, o int) {
			opWith(h, c, o, func(op map[string]interface{}) { op[kv[0].(string)] = kv[1] })
		}})
	}
	for name, kv := range map[string][2]interface{}{
		"op-timestamp-zero":   {"timestamp", 0},
		"op-nonce-too-short":  {"nonce", []byte{1, 2, 3}},
		"op-nonce-too-long":   {"nonce", make([]byte, 100)},
		"op-nonce-missing":    {"nonce", nil},
		"op-title-empty":      {"title", ""},
		"op-title-multiline":  {"title", "two\nlines"},
		"op-title-control":    {"title", "bad\u0007"},
		"op-message-control":  {"message", "bad\u0000char"},
		"op-status-7":         {"status", 7},
		"op-label-empty":      {"added", []string{" "}},
		"op-target-short":     {"target", "abc"},
		"op-files-bad-hash":   {"files", []string{"zz"}},
		"op-metadata-badkey":  {"metadata", map[string]string{"a\nb": "v"}},
	} {
		kv := kv
		add(mutation{Name: name, Level: "op", Verdict: "either", Props: "C07", Applies: hasOps, Apply: func(h *history, c, o int) {
			opWith(h, c, o, func(op map[string]interface{}) { op[kv[0].(string)] = kv[1] })
		}})
	}
	// a label change that names one label twice, and one that also takes it away again: both pass
	// validation; interpreting them must not trip over the duplicate
	add(mutation{Name: "op-label-added-twice", Level: "commit", Verdict: "either", Props: "C07", Applies: nonMergeNonRoot, Apply: func(h *history, c, o int) {
		h.Nodes[c].Spec.Ops = append(h.Nodes[c].Spec.Ops, model.OpJSON(map[string]interface{}{"type": model.OpLabelChange, "timestamp": 1700000789, "nonce": model.Nonce(uint64(c)+515, 20), "added": []string{"dup", "dup"}, "removed": []string{}}))
	}})
	add(mutation{Name: "op-label-added-twice-and-removed", Level: "commit", Verdict: "either", Props: "C07", Applies: nonMergeNonRoot, Apply: func(h *history, c, o int) {
		h.Nodes[c].Spec.Ops = append(h.Nodes[c].Spec.Ops, model.OpJSON(map[string]interface{}{"type": model.OpLabelChange, "timestamp": 1700000789, "nonce": model.Nonce(uint64(c)+616, 20), "added": []string{"dup", "dup"}, "removed": []string{"dup"}}))
	}})
	add(mutation{Name: "first-op-not-create", Level: "commit", Verdict: "either", Props: "C07", Applies: isRoot, Apply: func(h *history, c, o int) {
		opWith(h, c, 0, func(op map[string]interface{}) { op["type"] = model.OpAddComment })
	}})
	add(mutation{Name: "second-create-op", Level: "commit", Verdict: "either", Props: "C07", Applies: nonMergeNonRoot, Apply: func(h *history, c, o int) {
		h.Nodes[c].Spec.Ops = append(h.Nodes[c].Spec.Ops, h.Nodes[0].Spec.Ops[0])
	}})
	add(mutation{Name: "duplicated-op-in-pack", Level: "commit", Verdict: "either", Props: "C07", Applies: nonMergeNonRoot, Apply: func(h *history, c, o int) {
		h.Nodes[c].Spec.Ops = append(h.Nodes[c].Spec.Ops, h.Nodes[c].Spec.Ops[0])
	}})

	// ---- commit graph and clocks (C03 part B)
	add(mutation{Name: "child-clock-equal-parent", Level: "commit", Verdict: "reject", Props: "C03 C07", Applies: notRoot, Apply: func(h *history, c, o int) {
		h.Nodes[c].Spec.Edit = h.Nodes[h.Nodes[c].Parents[0]].Spec.Edit
	}})
	add(mutation{Name: "child-clock-below-parent", Level: "commit", Verdict: "reject", Props: "C03 C07", Applies: func(h *history, c, o int) bool {
		return c != 0 && h.Nodes[h.Nodes[c].Parents[len(h.Nodes[c].Parents)-1]].Spec.Edit > 1
	}, Apply: func(h *history, c, o int) {
		ps := h.Nodes[c].Parents
		h.Nodes[c].Spec.Edit = h.Nodes[ps[len(ps)-1]].Spec.Edit - 1
	}})
	add(mutation{Name: "merge-clock-behind-one-parent", Level: "commit", Verdict: "reject", Props: "C03", Applies: func(h *history, c, o int) bool {
		if !isMerge(h, c, o) {
			return false
		}
		a, b := h.Nodes[h.Nodes[c].Parents[0]].Spec.Edit, h.Nodes[h.Nodes[c].Parents[1]].Spec.Edit
		return a != b
	}, Apply: func(h *history, c, o int) {
		a, b := h.Nodes[h.Nodes[c].Parents[0]].Spec.Edit, h.Nodes[h.Nodes[c].Parents[1]].Spec.Edit
		lo, hi := a, b
		if lo > hi {
			lo, hi = hi, lo
		}
		// above the lower parent, not above the higher one; descendants keep valid hops
		h.Nodes[c].Spec.Edit = hi
		if lo+1 < hi {
			h.Nodes[c].Spec.Edit = lo + 1
		}
	}})
	add(mutation{Name: "clock-jump-1e9", Level: "commit", Verdict: "reject", Props: "C03 C07", Applies: nonMergeNonRoot, Apply: func(h *history, c, o int) {
		bump(h, c, 1_000_000_000)
	}})
	// the far end of the clock's range: a hop that only fits an unsigned 64-bit number, and one
	// that brings the clock within reach of its roll-over
	add(mutation{Name: "clock-jump-past-half-range", Level: "commit", Verdict: "reject", Props: "C03 C07", Applies: nonMergeNonRoot, Apply: func(h *history, c, o int) {
		bump(h, c, 1<<63+10)
	}})
	add(mutation{Name: "clock-jump-near-rollover", Level: "commit", Verdict: "reject", Props: "C03 C07", Applies: nonMergeNonRoot, Apply: func(h *history, c, o int) {
		bump(h, c, ^uint64(0)-1_000_000)
	}})
	add(mutation{Name: "merge-commit-with-operations", Level: "commit", Verdict: "reject", Props: "C03 C07", Applies: isMerge, Apply: func(h *history, c, o int) {
		g := &gen{r: nil}
		_ = g
		m := map[string]interface{}{"type": model.OpSetStatus, "timestamp": 1700000123, "nonce": model.Nonce(uint64(c)+99, 20), "status": 2}
		h.Nodes[c].Spec.Ops = []json.RawMessage{model.OpJSON(m)}
	}})
	add(mutation{Name: "second-root", Level: "commit", Verdict: "reject", Props: "C03 C07", Applies: nonMergeNonRoot, Apply: func(h *history, c, o int) {
		// graft: the commit gets a second parent which is a fresh root
		r2 := &node{Spec: h.Nodes[0].Spec}
		r2.Spec.Ops = append([]json.RawMessage{}, h.Nodes[0].Spec.Ops...)
		var op map[string]interface{}
		_ = json.Unmarshal(r2.Spec.Ops[0], &op)
		op["nonce"] = model.Nonce(4242, 20)
		b, _ := json.Marshal(op)
		r2.Spec.Ops[0] = b
		r2.Spec.Edit = 1
		h.Nodes = append(h.Nodes, nil)
		copy(h.Nodes[c+1:], h.Nodes[c:])
		h.Nodes[c] = r2
		// indices >= c shifted by one
		for i := c + 1; i < len(h.Nodes); i++ {
			for k := range h.Nodes[i].Parents {
				if h.Nodes[i].Parents[k] >= c {
					h.Nodes[i].Parents[k]++
				}
			}
		}
		h.Nodes[c+1].Parents = append(h.Nodes[c+1].Parents, c)
		h.Nodes[c+1].Spec.Ops = nil // now a merge commit: keep it free of operations
	}})
	add(mutation{Name: "second-root-sorting-after-the-first", Level: "commit", Verdict: "reject", Props: "C03 C07", Applies: nonMergeNonRoot, Apply: func(h *history, c, o int) {
		// as above, but the foreign root is complete (creation clock included), its clocks grow along
		// every edge and it sorts after the genuine root, so the entity keeps its id: only the
		// number of roots gives it away
		bump(h, c, 3)
		r2 := &node{Spec: h.Nodes[0].Spec}
		// an ordinary comment, so that the bug's own rules (one creation, first) have nothing to object to
		r2.Spec.Ops = []json.RawMessage{model.OpJSON(map[string]interface{}{"type": model.OpAddComment, "timestamp": 1700000456, "nonce": model.Nonce(4343, 20), "message": "from another root", "files": nil})}
		r2.Spec.Edit = h.Nodes[c].Spec.Edit - 1
		h.Nodes = append(h.Nodes, nil)
		copy(h.Nodes[c+1:], h.Nodes[c:])
		h.Nodes[c] = r2
		for i := c + 1; i < len(h.Nodes); i++ {
			for k := range h.Nodes[i].Parents {
				if h.Nodes[i].Parents[k] >= c {
					h.Nodes[i].Parents[k]++
				}
			}
		}
		h.Nodes[c+1].Parents = append(h.Nodes[c+1].Parents, c)
		h.Nodes[c+1].Spec.Ops = nil
	}})
	add(mutation{Name: "root-replaced-foreign-history", Level: "ref", Verdict: "reject", Props: "C07", Applies: always, Apply: func(h *history, c, o int) {
		// ref name of this bug, content of another bug (a different root)
		h.RefName = h.bugId()
		var op map[string]interface{}
		_ = json.Unmarshal(h.Nodes[0].Spec.Ops[0], &op)
		op["nonce"] = model.Nonce(777, 20)
		b, _ := json.Marshal(op)
		h.Nodes[0].Spec.Ops[0] = b
	}})
	add(mutation{Name: "ref-name-not-an-id", Level: "ref", Verdict: "reject", Props: "C07", Applies: always, Apply: func(h *history, c, o int) {
		h.RefName = "not-an-id"
	}})
	add(mutation{Name: "ref-name-uppercase-id", Level: "ref", Verdict: "reject", Props: "C07", Applies: always, Apply: func(h *history, c, o int) {
		h.RefName = strings.ToUpper(h.bugId())
	}})
	add(mutation{Name: "ref-points-to-blob", Level: "ref", Verdict: "reject", Props: "C07", Applies: always, Apply: func(h *history, c, o int) {
		h.RawRefTarget = "blob"
	}})
	add(mutation{Name: "ref-points-to-tree", Level: "ref", Verdict: "reject", Props: "C07", Applies: always, Apply: func(h *history, c, o int) {
		h.RawRefTarget = "tree"
	}})
	add(mutation{Name: "recommitted-same-content", Level: "ref", Verdict: "either", Props: "C07", Applies: always, Apply: func(h *history, c, o int) {
		// the same operations under the same id, but in commits unrelated to the ones the victim holds
		h.Recommit = true
	}})
	add(mutation{Name: "recommitted-with-extra-commit", Level: "ref", Verdict: "either", Props: "C07", Applies: always, Apply: func(h *history, c, o int) {
		h.Recommit = true
		last := h.head()
		m := map[string]interface{}{"type": model.OpSetStatus, "timestamp": 1700000999, "nonce": model.Nonce(31337, 20), "status": 2}
		h.Nodes = append(h.Nodes, &node{Spec: model.PackSpec{Author: h.Nodes[0].Spec.Author, Version: 4, Edit: h.maxEdit() + 1, Ops: []json.RawMessage{model.OpJSON(m)}}, Parents: []int{last}})
	}})
	add(mutation{Name: "byte-flip", Level: "commit", Verdict: "either", Props: "C07", Applies: hasOps, Apply: nil})

	// several groups above come from Go maps (random iteration order): fix the catalogue order
	sort.SliceStable(catalogue, func(i, j int) bool { return catalogue[i].Name < catalogue[j].Name })
}

// bump raises the edit time of commit c and of all its descendants by d (ancestry stays consistent).
func bump(h *history, c int, d uint64) {
	desc := map[int]bool{c: true}
	for i := c + 1; i < len(h.Nodes); i++ {
		for _, p := range h.Nodes[i].Parents {
			if desc[p] {
				desc[i] = true
			}
		}
	}
	for i := range desc {
		h.Nodes[i].Spec.Edit += d
	}
}

// concurrentPartner returns a commit that is neither ancestor nor descendant of c (-1 if none).
func concurrentPartner(h *history, c int) int {
	if len(h.Nodes[c].Spec.Ops) == 0 {
		return -1
	}
	anc := map[int]bool{}
	for _, a := range h.ancestors(c) {
		anc[a] = true
	}
	for i := range h.Nodes {
		if i == c || anc[i] || len(h.Nodes[i].Spec.Ops) == 0 {
			continue
		}
		isDesc := false
		for _, a := range h.ancestors(i) {
			if a == c {
				isDesc = true
			}
		}
		if !isDesc {
			return i
		}
	}
	return -1
}

// setEditKeepOrder sets the edit time of c to at least e and pushes descendants up as needed.
func setEditKeepOrder(h *history, c int, e uint64) {
	h.Nodes[c].Spec.Edit = e
	for i := c + 1; i < len(h.Nodes); i++ {
		for _, p := range h.Nodes[i].Parents {
			if h.Nodes[i].Spec.Edit <= h.Nodes[p].Spec.Edit {
				h.Nodes[i].Spec.Edit = h.Nodes[p].Spec.Edit + 1
			}
		}
	}
}
