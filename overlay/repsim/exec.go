package repsim

import (
	"encoding/json"
	"fmt"
	"os"
	"path/filepath"
	"sort"
	"strconv"
	"strings"

	"github.com/MichaelMure/git-bug/cache"
	"github.com/MichaelMure/git-bug/entities/bug"
	"github.com/MichaelMure/git-bug/entities/identity"
	"github.com/MichaelMure/git-bug/entity"
	"github.com/MichaelMure/git-bug/entity/dag"
	"github.com/MichaelMure/git-bug/repository"
	"github.com/MichaelMure/git-bug/zzverif/model"
	"github.com/MichaelMure/git-bug/zzverif/sim"
	"github.com/MichaelMure/git-bug/zzverif/verifrt"
)

type Engine struct{}

func (e *Engine) Name() string { return "repsim" }

func init() {
	sim.Register(&Engine{}, "C01", "C02", "C03", "C04", "C05", "C09", "C10", "C11", "C12", "C14", "C15")
	// C02: one run in four is a pull or merge executed once per storage call it issues, that call failing (crash.go)
	sim.Engines["crashsim"] = &CrashEngine{}
	sim.PropEngines["C02"] = []string{"repsim", "repsim", "repsim", "crashsim"}
	// C04 likewise: what was committed locally still reads back after a pull that met an error
	sim.PropEngines["C04"] = []string{"repsim", "repsim", "repsim", "crashsim"}
}

const baseWall = 1_700_000_000

type identInfo struct {
	Id   entity.Id
	Home int
}

// ledgerOp is what the workload recorded when it appended an operation.
type ledgerOp struct {
	Id      string
	Bug     string
	Type    int
	Author  string
	Title   string
	Was     string
	Message string
	Files   []string
	Target  string
	Added   []string
	Removed []string
	Status  int
	NewMeta map[string]string
	Meta    map[string]string
	Unix    int64
	Rep     int
	Seq     int  // position in the sequence of all appends of this run
	Acked   bool // its commit call returned success
}

type repState struct {
	r        *sim.Replica
	alive    bool
	own      []entity.Id
	lastOps  map[string][]string // bug id -> last observed reference order of the local ref
	removed  map[string]bool
	maxEdit  uint64 // max edit time over commits ever reachable from local refs
	maxCreate uint64
	clocks   map[string]uint64
	staged   map[string]bool // cache replicas: bugs with uncommitted operations
	partition map[int]bool
	elapsed  int64
	// discarded: bugs whose uncommitted (staged) operations were dropped by a close; their
	// excerpt in the cache file still shows them until the bug is touched again
	discarded map[string]bool
	// discardedIdent: identities whose staged (refused, uncommitted) version was dropped by a close;
	// the identity excerpt in the cache file still shows it
	discardedIdent map[string]bool
	stagedIdents   map[string]bool // identities mutated through the cache and not committed yet (C09 runs)
	wiped          bool
	user      entity.Id // adopted user identity (shared_user runs), "" = the replica's own first identity
}

type run struct {
	stepIOErr bool // the current step met an injected I/O error
	ioCtl     *sim.Control // armed with an I/O error during the current step
	e      *Engine
	p      *sim.Plan
	w      *sim.World
	res    *sim.RunResult
	prop   string
	appendSeq int
	faults bool
	reps   []*repState
	bugs   []string // creation order
	idents []identInfo
	ledger map[string]*ledgerOp
	seenCommits map[string]bool
	files  map[string][]byte // blob hash -> content, for attached files
	orders map[string][][]string // bug id -> distinct observed operation orders
	step   int
	viol   map[string]bool
	ntProbes map[string]bool
	quiet  bool
	detailPrefix string
}

// after a step that met an injected I/O error the checks of what the step should have brought in
// are not made (a pull that cannot write may refuse or skip entities); the checks of what it must
// not lose or damage stay.
var gainKinds = map[string]bool{"remote-op-missing": true, "remote-only-entity-missing": true, "status-disagrees": true,
	"returned-entity-not-merged": true, "ff-not-applied": true, "ff-status-wrong": true}

func (x *run) violate(kind, format string, a ...interface{}) {
	if gainKinds[kind] && (x.stepIOErr || (x.ioCtl != nil && x.ioCtl.ErrFiredCount() > 0)) {
		x.probe("gain_check_skipped_after_io_error")
		return
	}
	key := kind
	if x.detailPrefix != "" {
		key = kind + "/attributed"
	}
	if x.viol[key] {
		return // first of each kind per run is enough
	}
	x.viol[key] = true
	x.res.Violations = append(x.res.Violations, sim.Violation{Property: x.prop, Kind: kind, Detail: x.detailPrefix + fmt.Sprintf(format, a...), Step: x.step})
}

// violateAs reports under a property other than the run's own only if it is the run's
// property; monitors of other properties stay silent (each check decides one property).
func (x *run) on(props ...string) bool {
	for _, p := range props {
		if p == x.prop {
			return true
		}
	}
	return false
}

func (x *run) probe(k string) { x.w.Stats.Probe(k) }

func (e *Engine) Execute(p *sim.Plan, keepLog bool) (res *sim.RunResult) {
	res = &sim.RunResult{}
	goBase := verifrt.LiveGoroutines()
	w := sim.NewWorld(p.RunSeed, keepLog)
	defer w.Close()
	x := &run{e: e, p: p, w: w, res: res, prop: p.Property, faults: p.CfgBool("faults"),
		ledger: map[string]*ledgerOp{}, seenCommits: map[string]bool{}, files: map[string][]byte{},
		orders: map[string][][]string{}, viol: map[string]bool{}, ntProbes: map[string]bool{}}
	defer func() {
		if r := recover(); r != nil {
			verifrt.RecordPanic("repsim step", r)
			res.HarnessErr = fmt.Sprintf("panic in step %d: %v", x.step, r)
			for _, pr := range verifrt.TakePanicsQuiesced(goBase) {
				res.HarnessErr += "\n" + pr.Stack
			}
		}
		res.LogHash = w.Log.Hash()
		res.Faults = w.Stats.Faults
		for k, v := range w.Net.Fired {
			res.Faults["net:"+k] += v
		}
		res.Probes = w.Stats.Probes
		if keepLog {
			res.Trace = w.Log.Lines
		}
	}()
	if err := x.setup(); err != nil {
		res.HarnessErr = "setup: " + err.Error()
		return res
	}
	for i := range p.Steps {
		x.step = i
		x.execStep(&p.Steps[i])
		if res.HarnessErr != "" {
			return res
		}
	}
	x.step = len(p.Steps)
	x.quiesce()
	x.finalChecks()
	// panics in goroutines spawned by git-bug
	for _, pr := range verifrt.TakePanicsQuiesced(goBase) {
		x.probe("panic_observed")
		if x.on("C07") {
			x.violate("panic", "panic in %s: %s", pr.Site, pr.Value)
		}
	}
	var keys []string
	for k := range x.ntProbes {
		keys = append(keys, k)
	}
	sort.Strings(keys)
	if x.nontrivial() {
		res.NTKey = "nt:" + strings.Join(keys, "+")
	}
	for _, rs := range x.reps {
		res.SimSeconds += rs.elapsed
		res.Lamport += rs.maxEdit
	}
	return res
}

func (x *run) setup() error {
	p := x.p
	nrep, nhub := p.CfgInt("replicas", 2), p.CfgInt("hubs", 1)
	for h := 0; h < nhub; h++ {
		name := fmt.Sprintf("hub%d", h)
		if p.CfgBool("slash_remote") && h == 0 {
			name = "team/hub0" // git allows slashes in remote names; the tracking refs get one level more
		}
		x.w.AddHub(name)
	}
	levels, _ := p.Cfg["levels"].([]interface{})
	skews, _ := p.Cfg["skews"].([]interface{})
	for i := 0; i < nrep; i++ {
		level := "entity"
		if i < len(levels) {
			level, _ = levels[i].(string)
		}
		skew := int64(0)
		if i < len(skews) {
			if f, ok := skews[i].(float64); ok {
				skew = int64(f)
			} else if n, ok := skews[i].(int); ok {
				skew = int64(n)
			}
		}
		r := x.w.AddReplica(fmt.Sprintf("r%d", i), level, baseWall+skew)
		r.UseLoaders = true
		if v, ok := p.Cfg["loaders"].(bool); ok {
			r.UseLoaders = v
		}
		if p.CfgBool("permute_refs") {
			r.Perm = sim.NewRand(sim.Mix(p.RunSeed, uint64(i)+77))
		}
		x.w.Act(r)
		sim.SetRandStep(uint64(900000 + i))
		if err := r.Init(); err != nil {
			return err
		}
		mask := (1 << uint(len(x.w.Hubs))) - 1
		if ms, ok := p.Cfg["remote_masks"].([]interface{}); ok && i < len(ms) {
			if f, ok := ms[i].(float64); ok {
				mask = int(f)
			} else if n, ok := ms[i].(int); ok {
				mask = n
			}
		}
		for hi, h := range x.w.Hubs {
			if mask&(1<<uint(hi)) == 0 {
				continue
			}
			if err := r.AddRemote(h.Name, h); err != nil {
				return err
			}
		}
		rs := &repState{r: r, alive: true, lastOps: map[string][]string{}, removed: map[string]bool{}, clocks: map[string]uint64{}, staged: map[string]bool{}, partition: map[int]bool{}, discarded: map[string]bool{}, discardedIdent: map[string]bool{}, stagedIdents: map[string]bool{}}
		x.reps = append(x.reps, rs)
		n := 1 + p.CfgInt("extra_idents", 0)
		for k := 0; k < n; k++ {
			id, err := x.newIdentity(rs, fmt.Sprintf("user%d-%d", i, k), fmt.Sprintf("u%d%d@example.org", i, k))
			if err != nil {
				return err
			}
			if k == 0 {
				if r.Cache != nil {
					ic, err := r.Cache.Identities().Resolve(id)
					if err != nil {
						return err
					}
					if err := r.Cache.SetUserIdentity(ic); err != nil {
						return err
					}
				} else {
					idt, err := identity.ReadLocal(r.Sim, id)
					if err != nil {
						return err
					}
					if err := identity.SetUserIdentity(r.Sim, idt); err != nil {
						return err
					}
				}
			}
		}
		if x.on("C14") {
			// refs of the surrounding project whose names merely start like git-bug's namespaces:
			// removal must leave them alone (they point at some commit that exists here)
			if h, err := r.Raw.ResolveRef("refs/identities/" + string(rs.own[0])); err == nil {
				look := []string{"refs/heads/bugs-triage", "refs/heads/identities-v2", "refs/bugs-archive/2019", "refs/identities.bak/old"}
				for _, rem := range r.Remotes {
					look = append(look, "refs/remotes/"+rem+"/bugs-triage", "refs/remotes/"+rem+"/identities-v2", "refs/remotes/"+rem+"/main")
				}
				for _, ref := range look {
					if err := r.Raw.UpdateRef(ref, h); err != nil {
						return err
					}
				}
			}
		}
		if x.on("C15") {
			if err := x.prepareHost(rs, i); err != nil {
				return fmt.Errorf("prepare host repository: %w", err)
			}
		}
		x.w.Log.EndStep("setup "+r.Name, true)
	}
	if p.CfgBool("shared_user") && len(x.reps) > 1 && len(x.w.Hubs) > 0 {
		if err := x.adoptSharedUser(); err != nil {
			return fmt.Errorf("adopt shared user: %w", err)
		}
	}
	return nil
}

// adoptSharedUser publishes the identity of replica 0 and makes it the user of every replica.
func (x *run) adoptSharedUser() error {
	hub := x.w.Hubs[0].Name
	r0 := x.reps[0]
	shared := r0.own[0]
	x.w.Act(r0.r)
	sim.SetRandStep(910000)
	if _, err := identity.Push(r0.r.Sim, hub); err != nil {
		return err
	}
	for i, rs := range x.reps[1:] {
		r := rs.r
		x.w.Act(r)
		sim.SetRandStep(uint64(910001 + i))
		if _, err := identity.Fetch(r.Sim, hub); err != nil {
			return err
		}
		if r.Cache != nil {
			for res := range r.Cache.MergeAll(hub) {
				if res.Err != nil {
					return res.Err
				}
			}
			ic, err := r.Cache.Identities().Resolve(shared)
			if err != nil {
				return err
			}
			if err := r.Cache.SetUserIdentity(ic); err != nil {
				return err
			}
		} else {
			for res := range identity.MergeAll(r.Sim, hub) {
				if res.Err != nil {
					return res.Err
				}
			}
			idt, err := identity.ReadLocal(r.Sim, shared)
			if err != nil {
				return err
			}
			if err := identity.SetUserIdentity(r.Sim, idt); err != nil {
				return err
			}
		}
		rs.user = shared
	}
	x.probe("shared_user_adopted")
	x.w.Log.EndStep("adopt shared user", true)
	return nil
}

func (x *run) newIdentity(rs *repState, name, email string) (entity.Id, error) {
	r := rs.r
	var id entity.Id
	if r.Cache != nil {
		ic, err := r.Cache.Identities().New(name, email)
		if err != nil {
			return "", err
		}
		id = ic.Id()
	} else {
		i, err := identity.NewIdentity(r.Sim, name, email)
		if err != nil {
			return "", err
		}
		// the id is handed out before the first commit (a bug may already name it as its author);
		// whatever is still done to the identity before it is stored, that id stays
		handedOut := i.Id()
		if model.Sha256Hex([]byte(fmt.Sprintf("%s|%s|%d", name, email, x.p.RunSeed)))[0]%2 == 1 { // a function of the input, so that repeating the action repeats it
			i.SetMetadata("created-by", "simulation")
			x.probe("identity_metadata_before_first_commit")
		}
		if err := i.Commit(r.Sim); err != nil {
			return "", err
		}
		id = i.Id()
		if x.on("C04", "C09") {
			if id != handedOut {
				x.violate("id-changed", "identity created on %s was handed out as %s before its first commit and is %s after it", r.Name, handedOut.Human(), id.Human())
			} else if _, err := identity.ReadLocal(r.Observer(), handedOut); err != nil {
				x.violate("id-changed", "identity %s created on %s cannot be read under the id handed out before its first commit: %v", handedOut.Human(), r.Name, err)
			}
		}
	}
	rs.own = append(rs.own, id)
	x.idents = append(x.idents, identInfo{Id: id, Home: r.Idx})
	return id, nil
}

// ---- helpers ---------------------------------------------------------------------------

func (x *run) localBugIds(rs *repState) []string {
	refs, err := rs.r.Raw.ListRefs("refs/bugs/")
	if err != nil {
		return nil
	}
	sort.Strings(refs)
	// creation order first (stable under shrinking), unknown ones after
	have := map[string]bool{}
	for _, ref := range refs {
		have[model.RefId(ref)] = true
	}
	var out []string
	for _, id := range x.bugs {
		if have[id] {
			out = append(out, id)
			delete(have, id)
		}
	}
	var rest []string
	for id := range have {
		rest = append(rest, id)
	}
	sort.Strings(rest)
	return append(out, rest...)
}

func (x *run) pickBug(rs *repState, ord int) string {
	ids := x.localBugIds(rs)
	if len(ids) == 0 {
		return ""
	}
	return ids[ord%len(ids)]
}

// knownIdentIds: identities whose ref exists locally, own ones first.
func (x *run) knownIdents(rs *repState) []entity.Id {
	refs, _ := rs.r.Raw.ListRefs("refs/identities/")
	have := map[string]bool{}
	for _, ref := range refs {
		have[model.RefId(ref)] = true
	}
	var out []entity.Id
	for _, id := range rs.own {
		if have[string(id)] {
			out = append(out, id)
		}
	}
	for _, ii := range x.idents {
		if ii.Home != rs.r.Idx && have[string(ii.Id)] {
			out = append(out, ii.Id)
		}
	}
	return out
}

func (x *run) author(rs *repState, ord int) (identity.Interface, error) {
	ids := x.knownIdents(rs)
	if len(ids) == 0 {
		return nil, fmt.Errorf("no identity")
	}
	// bias towards the replica's user: its own first identity, or the adopted one
	var id entity.Id
	if ord%4 != 3 || len(ids) == 1 {
		id = ids[0]
		if rs.user != "" {
			id = rs.user
		}
	} else {
		id = ids[(ord/4)%len(ids)]
	}
	if rs.r.Cache != nil {
		return rs.r.Cache.Identities().Resolve(id)
	}
	return identity.ReadLocal(rs.r.Sim, id)
}

func (x *run) resolvers(rs *repState) entity.Resolvers {
	return entity.Resolvers{&identity.Identity{}: identity.NewSimpleResolver(rs.r.Sim)}
}

func obsResolvers(o repository.ClockedRepo) entity.Resolvers {
	return entity.Resolvers{&identity.Identity{}: identity.NewSimpleResolver(o)}
}

// ---- step execution -----------------------------------------------------------------------

func (x *run) execStep(s *sim.Step) {
	if s.R >= len(x.reps) {
		s.R = s.R % len(x.reps)
	}
	rs := x.reps[s.R]
	x.w.Act(rs.r)
	rs.r.Wall += s.D
	if s.D > 0 {
		rs.elapsed += s.D
	}
	sim.SetRandStep(uint64(s.Id))
	x.res.Steps++
	label := fmt.Sprintf("step %d %s", s.Id, sim.StepString(*s))
	concurrent := false

	if rs.wiped {
		x.w.Log.EndStep(label+" (wiped)", false)
		return
	}
	if !rs.alive && s.Op != "restart" {
		// a dead replica does nothing until it is restarted
		x.w.Log.EndStep(label+" (dead)", false)
		return
	}
	pre := x.observe(rs)
	var hostBefore *hostSnap
	if x.on("C15") {
		hostBefore = x.hostSnapshot(rs)
	}
	ioClass := ""
	ioCtl := rs.r.C
	x.stepIOErr, x.ioCtl = false, nil
	// (a pull through the cache is a pipeline of goroutines, so "the k-th storage call" can name
	// different calls in two executions there; run hashes are taken over per-step multisets and the
	// oracles hold for every interleaving, and the determinism test shows no divergence in 200 runs x 4)
	if strings.HasPrefix(s.F, "ioerr:") && ioCtl != nil {
		var k, n int
		f := strings.Split(s.F, ":")
		if len(f) == 4 {
			ioClass = f[1]
			k, _ = strconv.Atoi(f[2])
			n, _ = strconv.Atoi(f[3])
			ioCtl.ArmErr(ioClass, k, n)
			x.ioCtl = ioCtl
		}
	}
	err := x.doStep(rs, s, pre)
	if ioClass != "" {
		x.ioCtl = nil
		if fired := ioCtl.DisarmErr(); fired > 0 {
			x.stepIOErr = true
			x.w.Stats.Fault("ioerr-" + ioClass)
			if err == nil {
				x.probe("io_error_not_reported_by_the_step")
			} else if s.Id%2 == 0 && rs.alive && rs.r.C == ioCtl {
				// a command that fails ends its process: a clean close and a new session. (Odd
				// steps: a long-lived process, the web UI, that goes on with what it has.)
				x.probe("session_ended_after_io_error")
				_ = x.stepRestart(rs, &sim.Step{K: "clean"})
			}
		}
	}
	if hostBefore != nil {
		x.hostCompare(rs, hostBefore, x.hostSnapshot(rs), fmt.Sprintf("step %s %s", s.Op, s.K))
		x.ntProbes["host"] = true
	}
	switch s.Op {
	case "pull", "merge", "fetch", "restart", "delclocks", "losecache", "remove", "wipe", "cli":
		concurrent = true
	}
	if err == nil {
		x.res.StepsOK++
	}
	x.w.Log.Add("outcome ok=%v", err == nil)
	x.w.Log.Note("outcome %v", err)
	if rs.alive && rs.r.Raw != nil {
		post := x.observe(rs)
		x.afterStep(rs, s, pre, post, err)
	}
	x.w.Log.EndStep(label, concurrent)
}

// doStep performs the action of a step on a live replica.
func (x *run) doStep(rs *repState, s *sim.Step, pre *obs) error {
	var err error
	switch s.Op {
	case "newbug":
		err = x.guard("new bug", func() error { return x.stepNewBug(rs, s) })
	case "edit":
		err = x.guard("edit", func() error { return x.stepEdit(rs, s) })
	case "commit":
		err = x.guard("commit", func() error { return x.stepCommit(rs, s) })
	case "push":
		err = x.guard("push", func() error { return x.stepPush(rs, s) })
	case "pull", "merge", "fetch":
		err = x.guard("pull", func() error { return x.stepPull(rs, s, pre) })
	case "identmut":
		err = x.guard("identity mutate", func() error { return x.stepIdentMut(rs, s) })
	case "newident":
		err = x.guard("new identity", func() error {
			_, e := x.newIdentity(rs, "extra "+s.S, "extra@example.org")
			return e
		})
	case "remove":
		if x.on("C14") {
			err = x.stepRemoveChecked(rs, s)
		} else {
			err = x.guard("remove", func() error { return x.stepRemove(rs, s) })
		}
	case "addremote":
		// a remote configured later, on the handle that is already open and has already been used
		for _, h := range x.w.Hubs {
			known := false
			for _, n := range rs.r.Remotes {
				if n == h.Name {
					known = true
				}
			}
			if !known {
				err = rs.r.AddRemote(h.Name, h)
				x.probe("remote_added_later")
				break
			}
		}
	case "foreign":
		err = x.guard("foreign", func() error { return x.stepForeign(rs, s) })
	case "wipe":
		err = x.guard("wipe", func() error { return x.stepWipe(rs, s) })
	case "cli":
		err = x.guard("cli", func() error { return x.stepCLI(rs, s) })
	case "losecache":
		err = x.guard("reopen", func() error { return x.stepLoseCache(rs, s) })
	case "restart":
		err = x.guard("restart", func() error { return x.stepRestart(rs, s) })
	case "delclocks":
		err = x.guard("reopen", func() error { return x.stepDelClocks(rs, s) })
	case "clockjump":
		// D already applied
	case "partition":
		h := s.H % len(x.w.Hubs)
		x.w.Net.Partition[rs.r.Name+"|"+sim.HostOf(x.w.Hubs[h].Name)] = s.N == 1
		if s.N == 1 {
			x.w.Stats.Fault("partition-set")
		}
	case "cachesize":
		if rs.r.Cache != nil {
			rs.r.Cache.Bugs().SetCacheSize(s.N)
			rs.r.Cache.Identities().SetCacheSize(s.N + 2)
		}
	default:
		x.res.HarnessErr = "unknown step " + s.Op
	}
	return err
}

// saveFile stores an attached file through the API and remembers its content.
func (x *run) saveFiles(rs *repState, specs []string) ([]repository.Hash, error) {
	var out []repository.Hash
	for _, sp := range specs {
		if !strings.HasPrefix(sp, "file:") {
			continue
		}
		content := []byte(strings.TrimPrefix(sp, "file:"))
		var h repository.Hash
		var err error
		if rs.r.Cache != nil {
			h, err = rs.r.Cache.StoreData(content)
		} else {
			h, err = rs.r.Sim.StoreData(content)
		}
		if err != nil {
			return nil, err
		}
		x.files[string(h)] = content
		out = append(out, h)
	}
	return out, nil
}

func metaOf(s *sim.Step) map[string]string {
	if len(s.M) >= 2 && s.Op == "newbug" {
		return map[string]string{s.M[0]: s.M[1]}
	}
	if strings.HasPrefix(s.T, "md:") && s.Op == "op" {
		return map[string]string{"note": strings.TrimPrefix(s.T, "md:")}
	}
	return nil
}

func (x *run) record(rs *repState, bugId string, op dag.Operation, lo ledgerOp) {
	lo.Id = string(op.Id())
	lo.Bug = bugId
	lo.Type = int(op.Type())
	lo.Author = string(op.Author().Id())
	lo.Unix = op.Time().Unix()
	lo.Rep = rs.r.Idx
	x.appendSeq++
	lo.Seq = x.appendSeq
	lo.Meta = map[string]string{}
	for k, v := range op.AllMetadata() {
		lo.Meta[k] = v
	}
	x.ledger[lo.Id] = &lo
}

func hashStrs(h []repository.Hash) []string {
	out := make([]string, len(h))
	for i, v := range h {
		out[i] = string(v)
	}
	return out
}

func (x *run) stepNewBug(rs *repState, s *sim.Step) error {
	author, err := x.author(rs, s.A)
	if err != nil {
		return err
	}
	files, err := x.saveFiles(rs, s.L)
	if err != nil {
		return err
	}
	md := metaOf(s)
	var id string
	var op *bug.CreateOperation
	if rs.r.Cache != nil {
		bc, cop, err := rs.r.Cache.Bugs().NewRaw(author, rs.r.Wall, s.S, s.T, files, md)
		if err != nil {
			if s.K == "invalid" {
				x.probe("invalid_input_rejected")
				return nil
			}
			return err
		}
		id, op = string(bc.Id()), cop
	} else {
		b, cop, err := bug.Create(author, rs.r.Wall, s.S, s.T, files, md)
		if err != nil {
			if s.K == "invalid" {
				x.probe("invalid_input_rejected")
				return nil
			}
			return err
		}
		id, op = string(b.Id()), cop
		if err := b.Commit(rs.r.Sim); err != nil {
			x.record(rs, id, op, ledgerOp{Title: s.S, Message: s.T, Files: hashStrs(files)})
			return err
		}
	}
	if s.K == "invalid" {
		if x.on("C04") {
			x.violate("rejected-input-left-traces", "invalid title %q was accepted", s.S)
		}
	}
	x.bugs = append(x.bugs, id)
	x.record(rs, id, op, ledgerOp{Title: s.S, Message: s.T, Files: hashStrs(files), Acked: true})
	return nil
}

// bugHandle abstracts entity-level and cache-level editing.
type bugHandle struct {
	b  *bug.Bug
	bc *cache.BugCache
}

func (h *bugHandle) iface() bug.Interface { return h.b }

func (x *run) stepEdit(rs *repState, s *sim.Step) error {
	id := x.pickBug(rs, s.B)
	if id == "" {
		return fmt.Errorf("no bug")
	}
	var h bugHandle
	var err error
	if rs.r.Cache != nil {
		h.bc, err = rs.r.Cache.Bugs().Resolve(entity.Id(id))
	} else {
		h.b, err = bug.Read(rs.r.Sim, entity.Id(id))
	}
	if err != nil {
		return fmt.Errorf("open bug %s: %w", id[:7], err)
	}
	appended := 0
	var newOps []string
	for i := range s.Sub {
		sub := &s.Sub[i]
		sim.SetRandStep(uint64(sub.Id))
		opid, err := x.applySub(rs, &h, id, sub)
		if err != nil {
			x.w.Log.Add("sub %s -> error", sub.K)
			x.w.Log.Note("sub %s -> %v", sub.K, err)
			continue
		}
		if opid != "" {
			appended++
			newOps = append(newOps, opid)
		}
	}
	if appended == 0 {
		// an editing call that reports an error (an I/O error while the search index is updated)
		// has all the same appended its operation to the loaded bug: it is staged there
		if h.bc != nil && h.bc.NeedCommit() && !rs.staged[id] {
			rs.staged[id] = true
			x.probe("operation_staged_by_a_call_that_reported_an_error")
		}
		return nil
	}
	if h.bc != nil {
		rs.staged[id] = true
		if s.N == 0 {
			x.probe("left_staged")
			return nil
		}
		err = h.bc.Commit()
		if err == nil || !h.bc.NeedCommit() {
			// (a commit that failed half-way may have nothing left to commit)
			delete(rs.staged, id)
		}
	} else {
		err = h.b.Commit(rs.r.Sim)
	}
	if err == nil {
		for _, o := range newOps {
			x.ledger[o].Acked = true
		}
		// everything staged earlier on this bug is committed as well
		for _, lo := range x.ledger {
			if lo.Bug == id && lo.Rep == rs.r.Idx {
				lo.Acked = true
			}
		}
	}
	return err
}

func (x *run) stepCommit(rs *repState, s *sim.Step) error {
	if rs.r.Cache == nil {
		return nil
	}
	var first error
	var iids []string
	for id := range rs.stagedIdents {
		iids = append(iids, id)
	}
	sort.Strings(iids)
	for _, id := range iids {
		delete(rs.stagedIdents, id)
		ic, err := rs.r.Cache.Identities().Resolve(entity.Id(id))
		if err == nil {
			err = ic.CommitAsNeeded()
		}
		if err != nil && first == nil {
			first = err
		}
	}
	var ids []string
	for id := range rs.staged {
		ids = append(ids, id)
	}
	sort.Strings(ids)
	for _, id := range ids {
		bc, err := rs.r.Cache.Bugs().Resolve(entity.Id(id))
		if err != nil {
			if first == nil {
				first = err
			}
			continue
		}
		if err := bc.CommitAsNeeded(); err != nil {
			if first == nil {
				first = err
			}
			continue
		}
		delete(rs.staged, id)
		for _, lo := range x.ledger {
			if lo.Bug == id && lo.Rep == rs.r.Idx {
				lo.Acked = true
			}
		}
	}
	return first
}

// applySub appends one operation through the public editing API. Returns the id of
// the appended operation ("" if the API legitimately appended nothing).
func (x *run) applySub(rs *repState, h *bugHandle, bugId string, s *sim.Step) (string, error) {
	author, err := x.author(rs, s.A)
	if err != nil {
		return "", err
	}
	t := rs.r.Wall
	md := metaOf(s)
	// The snapshot is looked at before the append only where the step needs it (to pick a target)
	// and, for the other kinds, in half of the cases: a cached bug that was just re-read from git
	// (after an eviction or a reopen) has no compiled snapshot yet, and appending to it in that
	// state is a path of its own.
	var snap *bug.Snapshot
	needSnap := s.N%2 == 0
	switch s.K {
	case "comment", "title", "status", "label", "forcelabel", "noop":
	default:
		needSnap = true
	}
	if h.bc == nil {
		snap = h.b.Compile()
	} else if needSnap {
		snap = h.bc.Snapshot()
	} else {
		snap = &bug.Snapshot{}
		x.probe("append_without_compiled_snapshot")
	}
	preOps := len(snap.Operations)
	fail := func(err error) (string, error) { return "", err }
	switch s.K {
	case "comment":
		files, err := x.saveFiles(rs, s.L)
		if err != nil {
			return fail(err)
		}
		var op *bug.AddCommentOperation
		if h.bc != nil {
			_, op, err = h.bc.AddCommentRaw(author, t, s.S, files, md)
		} else {
			_, op, err = bug.AddComment(h.b, author, t, s.S, files, md)
		}
		if err != nil {
			return fail(err)
		}
		x.record(rs, bugId, op, ledgerOp{Message: s.S, Files: hashStrs(files)})
		return string(op.Id()), nil
	case "editcomment":
		if len(snap.Comments) == 0 {
			return "", nil
		}
		c := snap.Comments[s.N%len(snap.Comments)]
		var op *bug.EditCommentOperation
		if h.bc != nil {
			op, err = h.bc.EditCommentRaw(author, t, c.CombinedId(), s.S, md)
		} else {
			files, ferr := x.saveFiles(rs, s.L)
			if ferr != nil {
				return fail(ferr)
			}
			_, op, err = bug.EditComment(h.b, author, t, c.TargetId(), s.S, files, md)
		}
		if err != nil {
			return fail(err)
		}
		x.record(rs, bugId, op, ledgerOp{Message: s.S, Target: string(c.TargetId()), Files: hashStrs(op.Files)})
		return string(op.Id()), nil
	case "editcomment-unknown", "editcomment-noncomment":
		if h.b == nil {
			return "", nil // the cache API refuses unknown targets up front
		}
		target := entity.Id(model.Sha256Hex([]byte(fmt.Sprintf("nope-%d", s.Id))))
		if s.K == "editcomment-noncomment" {
			found := false
			for _, op := range snap.Operations {
				if op.Type() != bug.CreateOp && op.Type() != bug.AddCommentOp {
					target = op.Id()
					found = true
					break
				}
			}
			if !found {
				return "", nil
			}
			x.probe("edit_noncomment_target")
		} else {
			x.probe("edit_unknown_target")
		}
		_, op, err := bug.EditComment(h.b, author, t, target, s.S, nil, md)
		if err != nil {
			return fail(err)
		}
		x.record(rs, bugId, op, ledgerOp{Message: s.S, Target: string(target)})
		return string(op.Id()), nil
	case "title":
		var op *bug.SetTitleOperation
		if h.bc != nil {
			op, err = h.bc.SetTitleRaw(author, t, s.S, md)
		} else {
			op, err = bug.SetTitle(h.b, author, t, s.S, md)
		}
		if err != nil {
			return fail(err)
		}
		x.record(rs, bugId, op, ledgerOp{Title: s.S, Was: op.Was})
		return string(op.Id()), nil
	case "status":
		var op *bug.SetStatusOperation
		if s.S == "closed" {
			if h.bc != nil {
				op, err = h.bc.CloseRaw(author, t, md)
			} else {
				op, err = bug.Close(h.b, author, t, md)
			}
		} else {
			if h.bc != nil {
				op, err = h.bc.OpenRaw(author, t, md)
			} else {
				op, err = bug.Open(h.b, author, t, md)
			}
		}
		if err != nil {
			return fail(err)
		}
		x.record(rs, bugId, op, ledgerOp{Status: int(op.Status)})
		return string(op.Id()), nil
	case "label":
		var op *bug.LabelChangeOperation
		if h.bc != nil {
			_, op, err = h.bc.ChangeLabelsRaw(author, t, s.L, s.M, md)
		} else {
			_, op, err = bug.ChangeLabels(h.b, author, t, s.L, s.M, md)
		}
		if err != nil || op == nil {
			return fail(err)
		}
		x.record(rs, bugId, op, ledgerOp{Added: lbl(op.Added), Removed: lbl(op.Removed)})
		return string(op.Id()), nil
	case "forcelabel":
		var op *bug.LabelChangeOperation
		if h.bc != nil {
			op, err = h.bc.ForceChangeLabelsRaw(author, t, s.L, s.M, md)
		} else {
			op, err = bug.ForceChangeLabels(h.b, author, t, s.L, s.M, md)
		}
		if err != nil {
			return fail(err)
		}
		x.probe("forced_label_change")
		x.record(rs, bugId, op, ledgerOp{Added: lbl(op.Added), Removed: lbl(op.Removed)})
		return string(op.Id()), nil
	case "meta":
		if len(snap.Operations) == 0 {
			return "", nil
		}
		target := snap.Operations[s.N%len(snap.Operations)].Id()
		nm := map[string]string{}
		for i := 0; i+1 < len(s.L); i += 2 {
			nm[s.L[i]] = s.L[i+1]
		}
		var op *dag.SetMetadataOperation[*bug.Snapshot]
		if h.bc != nil {
			op, err = h.bc.SetMetadataRaw(author, t, target, nm)
		} else {
			op, err = bug.SetMetadata(h.b, author, t, target, nm)
		}
		if err != nil {
			return fail(err)
		}
		x.record(rs, bugId, op, ledgerOp{Target: string(target), NewMeta: nm})
		return string(op.Id()), nil
	case "noop":
		if h.b == nil {
			return "", nil
		}
		op := dag.NewNoOpOp[*bug.Snapshot](bug.NoOpOp, author, t)
		h.b.Append(op)
		x.record(rs, bugId, op, ledgerOp{})
		return string(op.Id()), nil
	case "invalid":
		var err error
		kind, val, _ := strings.Cut(s.S, ":")
		switch kind {
		case "title":
			if h.bc != nil {
				_, err = h.bc.SetTitleRaw(author, t, val, nil)
			} else {
				_, err = bug.SetTitle(h.b, author, t, val, nil)
			}
		case "comment":
			if h.bc != nil {
				_, _, err = h.bc.AddCommentRaw(author, t, val, nil, nil)
			} else {
				_, _, err = bug.AddComment(h.b, author, t, val, nil, nil)
			}
		case "label":
			if h.bc != nil {
				_, err = h.bc.ForceChangeLabelsRaw(author, t, []string{val}, nil, nil)
			} else {
				_, err = bug.ForceChangeLabels(h.b, author, t, []string{val}, nil, nil)
			}
		}
		var after int
		if h.bc != nil {
			after = len(h.bc.Snapshot().Operations)
		} else {
			after = len(h.b.Operations())
		}
		if x.on("C04") {
			if err == nil {
				x.violate("rejected-input-left-traces", "invalid input %q was accepted", s.S)
			} else if after != preOps {
				x.violate("rejected-input-left-traces", "rejected input %q changed the entity (%d -> %d operations)", s.S, preOps, after)
			}
		}
		x.probe("invalid_input_rejected")
		return "", nil
	}
	return "", fmt.Errorf("unknown sub op %s", s.K)
}

func lbl(l []bug.Label) []string {
	out := make([]string, len(l))
	for i, v := range l {
		out[i] = string(v)
	}
	return out
}

func (x *run) armFault(f string) {
	if f == "" || f == "half" || f == "partial-fetch" || strings.HasPrefix(f, "ioerr:") {
		return
	}
	x.w.Net.Fault = f
}

// hubFor picks one of the replica's configured remotes (nil if it has none).
func (x *run) hubFor(rs *repState, ord int) *sim.Hub {
	if len(rs.r.Remotes) == 0 {
		return nil
	}
	name := rs.r.Remotes[ord%len(rs.r.Remotes)]
	for _, h := range x.w.Hubs {
		if h.Name == name {
			return h
		}
	}
	return nil
}

func (x *run) stepPush(rs *repState, s *sim.Step) error {
	hub := x.hubFor(rs, s.H)
	if hub == nil {
		return fmt.Errorf("no remote configured")
	}
	f := s.F
	if !x.faults {
		f = ""
	}
	x.armFault(f)
	defer func() { x.w.Net.Fault = "" }()
	var err error
	if rs.r.Cache != nil {
		_, err = rs.r.Cache.Push(hub.Name)
	} else {
		_, err = identity.Push(rs.r.Sim, hub.Name)
		if err == nil {
			if f == "half" {
				x.w.Stats.Fault("half-push")
				return fmt.Errorf("simulated: connection lost between the two pushes")
			}
			_, err = bug.Push(rs.r.Sim, hub.Name)
		}
	}
	return err
}

// mergeOutcome is what the engine collected from one MergeAll.
type mergeOutcome struct {
	Id     string
	Status entity.MergeStatus
	Reason string
	Err    error
	Ops    []string // operation ids of the returned entity (bugs) / version ids (identities)
	IsBug  bool
}

func (x *run) stepPull(rs *repState, s *sim.Step, pre *obs) error {
	hub := x.hubFor(rs, s.H)
	if hub == nil {
		return fmt.Errorf("no remote configured")
	}
	f := s.F
	if !x.faults {
		f = ""
	}
	x.armFault(f)
	defer func() { x.w.Net.Fault = "" }()
	r := rs.r
	preTrack, _ := sim.RefTable(r.Raw, "refs/remotes/"+hub.Name+"/")

	if s.Op == "pull" && s.K == "pull-api" && f != "partial-fetch" {
		// the one-call API; results are judged from the state change only
		var err error
		if r.Cache != nil {
			err = r.Cache.Pull(hub.Name)
		} else {
			err = identity.Pull(r.Sim, hub.Name)
			if err == nil {
				var author identity.Interface
				author, err = x.author(rs, 0)
				if err == nil {
					err = bug.Pull(r.Sim, x.resolvers(rs), hub.Name, author)
				}
			}
		}
		x.checkMerge(rs, hub.Name, pre, nil, err)
		return err
	}

	if s.Op != "merge" {
		var err error
		if r.Cache != nil {
			_, err = r.Cache.Fetch(hub.Name)
		} else {
			_, err = identity.Fetch(r.Sim, hub.Name)
			if err == nil {
				_, err = bug.Fetch(r.Sim, hub.Name)
			}
		}
		if err != nil {
			return err
		}
		if f == "partial-fetch" {
			x.partialFetch(rs, hub.Name, preTrack, s.Id)
		}
		if s.Op == "fetch" {
			return nil
		}
	}
	var outs []mergeOutcome
	collect := func(res entity.MergeResult, isBug bool) {
		o := mergeOutcome{Id: string(res.Id), Status: res.Status, Reason: res.Reason, Err: res.Err, IsBug: isBug}
		if res.Entity != nil {
			switch t := res.Entity.(type) {
			case *bug.Bug:
				o.IsBug = true
				for _, op := range t.Operations() {
					o.Ops = append(o.Ops, string(op.Id()))
				}
			case *identity.Identity:
				o.IsBug = false
			}
		}
		outs = append(outs, o)
	}
	var firstErr error
	if r.Cache != nil {
		for res := range r.Cache.MergeAll(hub.Name) {
			collect(res, false)
			if res.Err != nil && firstErr == nil {
				firstErr = res.Err
			}
		}
	} else {
		for res := range identity.MergeAll(r.Sim, hub.Name) {
			collect(res, false)
			if res.Err != nil && firstErr == nil {
				firstErr = res.Err
			}
		}
		author, err := x.author(rs, 0)
		if err != nil {
			return err
		}
		for res := range bug.MergeAll(r.Sim, x.resolvers(rs), hub.Name, author) {
			collect(res, true)
			if res.Err != nil && firstErr == nil {
				firstErr = res.Err
			}
		}
	}
	x.checkMerge(rs, hub.Name, pre, outs, firstErr)
	return firstErr
}

// partialFetch rolls a seeded subset of remote-tracking refs back to their pre-fetch
// value: a remote that other replicas update non-atomically.
func (x *run) partialFetch(rs *repState, remote string, preTrack map[string]string, stepId int) {
	now, _ := sim.RefTable(rs.r.Raw, "refs/remotes/"+remote+"/")
	var names []string
	for n := range now {
		names = append(names, n)
	}
	sort.Strings(names)
	rr := sim.NewRand(sim.Mix(x.p.RunSeed, uint64(stepId)+31337))
	for _, n := range names {
		if now[n] != preTrack[n] && rr.Chance(0.5) {
			if old, ok := preTrack[n]; ok {
				_ = rs.r.Raw.UpdateRef(n, repository.Hash(old))
			} else {
				_ = rs.r.Raw.RemoveRef(n)
			}
			x.w.Stats.Fault("partial-fetch-ref")
		}
	}
}

// stepIdentMut mutates an identity and commits the new version. Outside C09 only the
// replica's own identities are touched (diverged identities never converge by design).
func (x *run) stepIdentMut(rs *repState, s *sim.Step) error {
	var pool []entity.Id
	if x.on("C09") || (x.on("C02") && s.N%2 == 0) {
		// any identity the replica knows, also somebody else's: two replicas mutating one identity
		// make it diverge, and a pull then meets a refused identity among others that must still merge.
		// (Which is why C02 and C09 runs never use the one-call Pull API: it returns at the first
		// refused entity and abandons its merge goroutines, which would go on reading the repository
		// under the next step — seen as go-git's "concurrent map writes" in the sweep of seed 4.)
		pool = x.knownIdents(rs)
	} else {
		for _, id := range x.knownIdents(rs) {
			for _, o := range rs.own {
				if o == id {
					pool = append(pool, id)
				}
			}
		}
	}
	if len(pool) == 0 {
		return fmt.Errorf("no identity")
	}
	id := pool[s.B%len(pool)]
	if s.T == "lowest-id" {
		// the same identity whichever replica is asked (pools are ordered per replica)
		for _, c := range pool {
			if c < id {
				id = c
			}
		}
	}
	invalid := s.K == "invalid"
	mut := func(m *identity.Mutator) {
		switch s.K {
		case "name":
			m.Name = s.S
		case "email":
			m.Email = strings.ReplaceAll(s.S, " ", ".") + "@example.org"
		case "login":
			m.Login = strings.ReplaceAll(s.S, " ", "-")
		case "avatar":
			m.AvatarUrl = "https://example.org/" + fmt.Sprint(s.Id) + ".png"
		case "invalid":
			switch s.N % 4 {
			case 0:
				m.Name, m.Login = "", ""
			case 1:
				m.Name = "bad\x07name"
			case 2:
				m.AvatarUrl = "not a url"
			case 3:
				m.Email = "two\nlines"
			}
		}
	}
	before, _ := model.ReadIdentity(rs.r.Raw, "refs/identities/"+string(id))
	var err error
	if rs.r.Cache != nil {
		var ic *cache.IdentityCache
		ic, err = rs.r.Cache.Identities().Resolve(id)
		if err != nil {
			return err
		}
		if s.K == "meta" {
			ic.SetMetadata("k"+fmt.Sprint(s.N%3), s.S)
		} else if err = ic.Mutate(rs.r.Sim, mut); err != nil {
			goto done
		}
		if x.on("C09") && !invalid && s.N%5 == 0 {
			// left uncommitted for now: a pull may come in between, a later commit step stores it
			rs.stagedIdents[string(id)] = true
			x.probe("identity_mutation_left_uncommitted")
			return nil
		}
		err = ic.CommitAsNeeded()
	} else {
		var i *identity.Identity
		i, err = identity.ReadLocal(rs.r.Sim, id)
		if err != nil {
			return err
		}
		if s.K == "meta" {
			i.SetMetadata("k"+fmt.Sprint(s.N%3), s.S)
		} else if err = i.Mutate(rs.r.Sim, mut); err != nil {
			goto done
		}
		err = i.CommitAsNeeded(rs.r.Sim)
	}
done:
	if err != nil && rs.r.Cache != nil && rs.alive && rs.r.C != nil && !rs.r.C.Crashed {
		// Mutate stages the new version in the live identity and Commit refused it: nothing in the
		// API takes a staged version back, so the only thing a client can do with that instance is
		// to drop it. The session ends here (what a command does on an error) and a new one starts.
		x.stepCommit(rs, &sim.Step{})
		if rerr := x.stepRestart(rs, &sim.Step{K: "clean"}); rerr != nil {
			return rerr
		}
		x.probe("session_ended_after_refused_identity_commit")
		rs.discardedIdent[string(id)] = true
	} else if err == nil {
		delete(rs.discardedIdent, string(id)) // its excerpt was rewritten from a committed version
	}
	if invalid && x.on("C09") {
		after, _ := model.ReadIdentity(rs.r.Raw, "refs/identities/"+string(id))
		x.probe("invalid_identity_version_tried")
		if err == nil || len(after) != len(before) {
			x.violate("invalid-identity-accepted", "identity %s on %s: invalid mutation (variant %d) returned %v, stored chain went from %d to %d versions", id[:7], rs.r.Name, s.N%4, err, len(before), len(after))
		}
		return nil
	}
	if err == nil {
		x.probe("identity_version_written")
		home := -1
		for _, ii := range x.idents {
			if ii.Id == id {
				home = ii.Home
			}
		}
		if home != rs.r.Idx {
			x.probe("identity_mutated_away_from_home")
		}
	}
	return err
}

func (x *run) stepRestart(rs *repState, s *sim.Step) error {
	r := rs.r
	if rs.alive {
		if s.K == "dirty" {
			r.Kill()
			x.w.Stats.Fault("kill")
			// staged operations die with the process
			rs.staged = map[string]bool{}
			rs.stagedIdents = map[string]bool{}
		} else {
			// a clean exit commits nothing by itself; staged operations are lost as well
			if err := r.CloseClean(); err != nil {
				x.w.Log.Note("close error %v", err)
			}
			for id := range rs.staged {
				rs.discarded[id] = true
				x.probe("closed_with_uncommitted_operations")
			}
			for id := range rs.stagedIdents {
				rs.discardedIdent[id] = true
			}
			rs.stagedIdents = map[string]bool{}
			rs.staged = map[string]bool{}
		}
		rs.alive = false
	}
	if err := r.Open(); err != nil {
		if x.on("C05", "C06") {
			x.violate("reopen-failed", "replica %s cannot be reopened: %v", r.Name, err)
		}
		// try once more without the cache so the run can go on
		return err
	}
	rs.alive = true
	x.probe("restart_" + s.K)
	x.afterOpenClockCheck(rs)
	return nil
}

// stepLoseCache: the cache and/or index directory is lost while the replica is cleanly closed.
func (x *run) stepLoseCache(rs *repState, s *sim.Step) error {
	r := rs.r
	x.stepCommit(rs, &sim.Step{})
	if err := r.CloseClean(); err != nil {
		x.w.Log.Note("close error %v", err)
	}
	rs.staged = map[string]bool{}
	rs.alive = false
	gb := filepath.Join(r.Dir, ".git", "git-bug")
	if s.N&1 != 0 {
		_ = os.RemoveAll(filepath.Join(gb, "cache"))
		rs.discarded = map[string]bool{} // rebuilt from git
		rs.discardedIdent = map[string]bool{}
	}
	if s.N&2 != 0 {
		_ = os.RemoveAll(filepath.Join(gb, "indexes"))
	}
	x.w.Stats.Fault("cache-files-lost")
	if err := r.Open(); err != nil {
		if x.on("C11") {
			x.violate("ids-differ", "replica %s cannot be reopened after its cache files were lost: %v", r.Name, err)
		}
		return err
	}
	rs.alive = true
	x.probe("reopen_after_cache_loss")
	return nil
}

// stepRemove removes a bug through the entity API or the cache API.
func (x *run) stepRemove(rs *repState, s *sim.Step) error {
	id := x.pickBug(rs, s.B)
	if id == "" {
		return fmt.Errorf("no bug")
	}
	var err error
	if rs.r.Cache != nil {
		err = rs.r.Cache.Bugs().Remove(id)
	} else {
		err = bug.Remove(rs.r.Sim, entity.Id(id))
	}
	if err == nil {
		rs.removed[id] = true
		delete(rs.staged, id)
		delete(rs.lastOps, id)
		x.probe("bug_removed")
	}
	return err
}

func (x *run) stepDelClocks(rs *repState, s *sim.Step) error {
	r := rs.r
	if err := r.CloseClean(); err != nil {
		x.w.Log.Note("close error %v", err)
	}
	rs.staged = map[string]bool{}
	rs.alive = false
	dir := filepath.Join(r.Dir, ".git", "git-bug", "clocks")
	if s.N&1 != 0 {
		_ = os.Remove(filepath.Join(dir, "bugs-edit"))
	}
	if s.N&2 != 0 {
		_ = os.Remove(filepath.Join(dir, "bugs-create"))
	}
	x.w.Stats.Fault("clock-files-deleted")
	if err := r.Open(); err != nil {
		if x.on("C05") {
			x.violate("reopen-failed", "replica %s cannot be reopened after clock files were deleted: %v", r.Name, err)
		}
		return err
	}
	rs.alive = true
	x.probe("reopen_without_clock_files")
	x.afterOpenClockCheck(rs)
	return nil
}

// nontrivial applies the property's stated rule (see Describe).
func (x *run) nontrivial() bool {
	n := x.ntProbes
	switch x.prop {
	case "C01":
		return n["merge"]
	case "C02":
		return n["bug-new"] || n["bug-updated"] || n["bug-updated-merge"]
	case "C03":
		return n["multi-commit"]
	case "C04":
		return n["ledger"]
	case "C05":
		return x.w.Stats.Probes["restart_clean"]+x.w.Stats.Probes["restart_dirty"]+x.w.Stats.Probes["reopen_without_clock_files"]+x.w.Stats.Probes["merge_commit"] > 0
	case "C09":
		return n["ident-updated"] || n["ident-diverged"]
	case "C10":
		return n["interp"]
	case "C14":
		return n["removed"]
	case "C15":
		return n["host"]
	case "C11":
		return n["rebuild"]
	case "C12":
		return n["query"]
	}
	return len(n) > 0
}

func openRaw(dir string) (*repository.GoGitRepo, error) {
	return repository.OpenGoGitRepo(dir, "git-bug", nil)
}

// stepForeign: somebody publishes, under the id of a bug this replica has not pushed yet, a history
// that is valid on its own but is not a continuation of the local one: the same first operation
// committed again as an unrelated root, plus a commit of its own. A merge of the two must be
// refused and leave the local bug alone - at every instant.
func (x *run) stepForeign(rs *repState, s *sim.Step) error {
	hub := x.hubFor(rs, s.H)
	if hub == nil {
		return fmt.Errorf("no remote")
	}
	var id string
	for _, cand := range x.localBugIds(rs) {
		if _, err := rs.r.Raw.ResolveRef("refs/remotes/" + hub.Name + "/bugs/" + cand); err != nil {
			id = cand // never pushed to nor fetched from that remote
		}
	}
	if id == "" {
		return fmt.Errorf("no unpublished bug")
	}
	ent, err := model.ReadEntity(rs.r.Raw, "refs/bugs/"+id)
	if err != nil || ent.Root == nil || len(ent.Root.Ops) == 0 {
		return fmt.Errorf("local bug not decodable: %v", err)
	}
	adv, err := repository.OpenGoGitRepo(hub.Dir, "git-bug-adversary", nil)
	if err != nil {
		return err
	}
	defer adv.Close()
	root := ent.Root
	spec := model.PackSpec{Author: root.Author, Ops: []json.RawMessage{root.Ops[0].Raw}, Edit: root.EditTime, Create: root.CreateTime, Version: root.Version}
	rh, err := model.StoreCommitOf(adv, spec.Entries())
	if err != nil {
		return err
	}
	op2 := model.OpJSON(map[string]interface{}{"type": model.OpAddComment, "timestamp": rs.r.Wall, "nonce": model.Nonce(uint64(s.Id)+4242, 20), "message": "published by somebody else", "files": nil})
	spec2 := model.PackSpec{Author: root.Author, Ops: []json.RawMessage{op2}, Edit: ent.MaxEdit() + 1, Version: root.Version}
	h2, err := model.StoreCommitOf(adv, spec2.Entries(), rh)
	if err != nil {
		return err
	}
	x.probe("foreign_history_published")
	return adv.UpdateRef("refs/bugs/"+id, h2)
}
