package model

import (
	"fmt"
	"sort"
	"strings"

	"github.com/MichaelMure/git-bug/entities/bug"
	"github.com/MichaelMure/git-bug/repository"
)

// FromSnapshot renders what git-bug compiled into the comparable form.
func FromSnapshot(s *bug.Snapshot) *Snap {
	out := &Snap{OpMeta: map[string]map[string]string{}}
	out.Id = string(s.Id())
	out.Title = s.Title
	out.Status = int(s.Status)
	for _, l := range s.Labels {
		out.Labels = append(out.Labels, string(l))
	}
	if out.Labels == nil {
		out.Labels = []string{}
	}
	if s.Author != nil {
		out.Author = string(s.Author.Id())
	}
	out.CreateUnix = s.CreateTime.Unix()
	out.EditUnix = s.EditTime().Unix()
	for _, c := range s.Comments {
		sc := SComment{OpId: string(c.TargetId()), Message: c.Message, Files: hashes(c.Files)}
		if c.Author != nil {
			sc.Author = string(c.Author.Id())
		}
		out.Comments = append(out.Comments, sc)
	}
	seenA := map[string]bool{}
	for _, a := range s.Actors {
		id := string(a.Id())
		if seenA[id] {
			out.Actors = append(out.Actors, id) // keep duplicate so Diff flags it
		}
		seenA[id] = true
	}
	out.Actors = append(out.Actors, sortedKeys(seenA)...)
	sort.Strings(out.Actors)
	seenP := map[string]bool{}
	for _, a := range s.Participants {
		id := string(a.Id())
		if seenP[id] {
			out.Participants = append(out.Participants, id)
		}
		seenP[id] = true
	}
	out.Participants = append(out.Participants, sortedKeys(seenP)...)
	sort.Strings(out.Participants)

	commentOf := map[string]int{}
	for i, c := range out.Comments {
		commentOf[c.OpId] = i
	}
	for _, it := range s.Timeline {
		_, opid := splitCombined(string(it.CombinedId()))
		var t STimeline
		switch v := it.(type) {
		case *bug.CreateTimelineItem:
			t = STimeline{Kind: "create", Payload: v.Message + "\x00" + strings.Join(hashes(v.Files), ",")}
			for _, h := range v.History {
				t.History = append(t.History, h.Message)
			}
		case *bug.AddCommentTimelineItem:
			t = STimeline{Kind: "comment", Payload: v.Message + "\x00" + strings.Join(hashes(v.Files), ",")}
			for _, h := range v.History {
				t.History = append(t.History, h.Message)
			}
		case *bug.LabelChangeTimelineItem:
			t = STimeline{Kind: "label", Payload: strings.Join(labels(v.Added), "\x01") + "\x00" + strings.Join(labels(v.Removed), "\x01")}
		case *bug.SetStatusTimelineItem:
			t = STimeline{Kind: "status", Payload: fmt.Sprint(int(v.Status))}
		case *bug.SetTitleTimelineItem:
			t = STimeline{Kind: "title", Payload: v.Title + "\x00" + v.Was}
		default:
			t = STimeline{Kind: fmt.Sprintf("%T", it)}
		}
		t.OpId = opid
		out.Timeline = append(out.Timeline, t)
	}
	// resolve timeline op id prefixes (the combined id holds 24 chars of the op id) and
	// fill comment histories from the timeline
	full := map[string]string{}
	for _, op := range s.Operations {
		id := string(op.Id())
		out.OpIds = append(out.OpIds, id)
		full[id[:opPrefixLen()]] = id
		md := map[string]string{}
		for k, v := range op.AllMetadata() {
			md[k] = v
		}
		out.OpMeta[id] = md
	}
	for i := range out.Timeline {
		if f, ok := full[out.Timeline[i].OpId]; ok {
			out.Timeline[i].OpId = f
		}
		if ci, ok := commentOf[out.Timeline[i].OpId]; ok && (out.Timeline[i].Kind == "create" || out.Timeline[i].Kind == "comment") {
			out.Comments[ci].History = out.Timeline[i].History
		}
	}
	return out
}

// number of characters of the secondary id that a combined id carries
func opPrefixLen() int {
	_, s := splitCombined(strings.Repeat("x", 64))
	return len(s)
}

func splitCombined(c string) (string, string) {
	var p, s strings.Builder
	for i := 0; i < len(c); i++ {
		switch {
		case i == 1, i == 3, i == 5, i == 9, i >= 10 && i%5 == 4:
			s.WriteByte(c[i])
		default:
			p.WriteByte(c[i])
		}
	}
	return p.String(), s.String()
}

func hashes(h []repository.Hash) []string {
	out := make([]string, len(h))
	for i, x := range h {
		out[i] = string(x)
	}
	return out
}

func labels(l []bug.Label) []string {
	out := make([]string, len(l))
	for i, x := range l {
		out[i] = string(x)
	}
	return out
}
