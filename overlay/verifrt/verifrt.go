// Package verifrt holds the runtime seams the instrumented git-bug packages call.
// Everything is pass-through unless a simulator installed itself. Std-only: it is
// imported by instrumented git-bug packages and must not import any of them.
package verifrt

import (
	"fmt"
	"os"
	"runtime"
	"runtime/debug"
	"sync"
	"sync/atomic"
	"syscall"
	"time"
)

var (
	mu        sync.Mutex
	nowFn     func() time.Time
	pidFn     func() int
	runningFn func(pid int) bool
	panics    []PanicRecord

	// scheduler hooks (schedsim). nil = no-op.
	lockHook  func(m interface{}, mode string, site string)
	yieldHook func(kind string, site string)
)

type PanicRecord struct {
	Site  string
	Value string
	Stack string
}

func SetNow(f func() time.Time) { mu.Lock(); nowFn = f; mu.Unlock() }

func SetPid(get func() int, running func(int) bool) {
	mu.Lock()
	pidFn, runningFn = get, running
	mu.Unlock()
}

func SetSchedHooks(lock func(m interface{}, mode string, site string), yield func(kind string, site string)) {
	mu.Lock()
	lockHook, yieldHook = lock, yield
	mu.Unlock()
}

// SetSleep installs (nil removes) the simulated sleep: timers created by git-bug then fire at once
// and the callback is told how long they were meant to last, so the simulator can advance its clock.
func SetSleep(f func(d time.Duration)) { mu.Lock(); sleepFn = f; mu.Unlock() }

var sleepFn func(d time.Duration)

// NewTimer is time.NewTimer for git-bug's retry and rate-limit waits (R-timer).
func NewTimer(d time.Duration) *time.Timer {
	mu.Lock()
	f := sleepFn
	mu.Unlock()
	if f != nil {
		f(d)
		return time.NewTimer(0)
	}
	return time.NewTimer(d)
}

// Until is time.Until against the simulated clock.
func Until(t time.Time) time.Duration { return t.Sub(Now()) }

// Now is the wall clock git-bug reads.
func Now() time.Time {
	mu.Lock()
	f := nowFn
	mu.Unlock()
	if f != nil {
		return f()
	}
	return time.Now()
}

func Getpid() int {
	mu.Lock()
	f := pidFn
	mu.Unlock()
	if f != nil {
		return f()
	}
	return os.Getpid()
}

func IsRunning(pid int) bool {
	mu.Lock()
	f := runningFn
	mu.Unlock()
	if f != nil {
		return f(pid)
	}
	return realIsRunning(pid)
}

// copy of util/process.IsRunning semantics for the pass-through case
func realIsRunning(pid int) bool {
	process, err := os.FindProcess(pid)
	if err != nil {
		return false
	}
	err = process.Signal(syscall.Signal(0))
	if err == nil {
		return true
	}
	if err.Error() == "os: process already finished" {
		return false
	}
	if errno, ok := err.(syscall.Errno); ok {
		switch errno {
		case syscall.ESRCH:
			return false
		case syscall.EPERM:
			return true
		}
	}
	return false
}

// GoGuard is deferred first in every goroutine git-bug spawns: a panic there is
// recorded as an observed process crash instead of killing the simulator.
func GoGuard(site string) func() {
	live.Add(1)
	return func() {
		defer live.Add(-1)
		if r := recover(); r != nil {
			rec := PanicRecord{Site: site, Value: fmt.Sprint(r), Stack: string(debug.Stack())}
			mu.Lock()
			panics = append(panics, rec)
			mu.Unlock()
		}
	}
}

// live counts the goroutines git-bug has spawned that have not returned yet.
var live atomic.Int64

// LiveGoroutines tells how many goroutines git-bug spawned have not returned yet.
func LiveGoroutines() int64 { return live.Load() }

// TakePanicsQuiesced is TakePanics once the goroutines git-bug spawned since the caller read
// LiveGoroutines (base) have returned: a goroutine that panics closes its result channel (a
// deferred call) before its panic is recorded, so the reader of that channel would otherwise
// race with the record. Gives up after a real-time bound (a goroutine left blocked for good by
// an abandoned channel) and counts that.
func TakePanicsQuiesced(base int64) []PanicRecord {
	deadline := time.Now().Add(500 * time.Millisecond)
	for live.Load() > base {
		if time.Now().After(deadline) {
			QuiesceTimeouts.Add(1)
			break
		}
		runtime.Gosched()
		time.Sleep(20 * time.Microsecond)
	}
	return TakePanics()
}

// QuiesceTimeouts counts the waits of TakePanicsQuiesced that gave up.
var QuiesceTimeouts atomic.Int64

// RecordPanic lets engines record a panic recovered on the calling goroutine.
func RecordPanic(site string, r interface{}) {
	rec := PanicRecord{Site: site, Value: fmt.Sprint(r), Stack: string(debug.Stack())}
	mu.Lock()
	panics = append(panics, rec)
	mu.Unlock()
}

// TakePanics returns and clears the recorded panics.
func TakePanics() []PanicRecord {
	mu.Lock()
	p := panics
	panics = nil
	mu.Unlock()
	return p
}

func BeforeLock(m interface{}, mode string, site string) {
	mu.Lock()
	f := lockHook
	mu.Unlock()
	if f != nil {
		f(m, mode, site)
	}
}

func Yield(kind string, site string) {
	mu.Lock()
	f := yieldHook
	mu.Unlock()
	if f != nil {
		f(kind, site)
	}
}
