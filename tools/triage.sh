#!/bin/bash
# tools/triage.sh <tag> <prop> <test-regex> <pkg> [budget] : confirm a seeded change (demo passes without / fails with,
# suite with patch) and run the property's quick check against it. Compact output.
TAG=$1; PROP=$2; RE=$3; PKG=$4; B=${5:-25}
cd /verif
tools/verify_seeded2.sh $TAG "$RE" $PKG
tools/suite_with_patch.sh $TAG | tail -1
# suite_with_patch moved the demo away; nothing else to restore
tools/try_mutant.sh /tmp/seeded-out/$TAG/patch.diff $PROP $B | grep -v "^KNOWN" | cut -c1-420 | head -5
