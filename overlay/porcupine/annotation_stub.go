// Package porcupine: the checker files (bitset.go, checker.go, model.go, porcupine.go) of
// github.com/anishathalye/porcupine v1.3.0 are mapped here from the module cache by the build
// overlay, unmodified. visualization.go is left out (it embeds HTML assets); this stub provides
// the one type of it that checker.go refers to.
package porcupine

type Annotation struct {
	ClientId        int
	Tag             string
	Start           int64
	End             int64
	Description     string
	Details         string
	TextColor       string
	BackgroundColor string
}
