#!/bin/bash
# tools/verify_seeded.sh <ID> : confirm in the scratch worktree /tmp/wt-<ID> that the demo passes
# without the patch and fails with it, and that the tree builds with it. Prints a JSON line.
ID=$1; WT=/tmp/wt-$ID; OUT=/tmp/seeded-out/$ID
export GOFLAGS=-mod=mod GOPROXY=off GOSUMDB=off GOTOOLCHAIN=local
cd $WT || exit 2
git checkout -q -- . 
CMD=$(python3 -c "import json;print(json.load(open('$OUT/meta.json'))['demo_cmd'])")
CMD=$(echo "$CMD" | sed -e "s#^cd [^ ]* *&& *##" -e 's#^(cd [^)]*&& *##' -e 's#)$##' -e 's/GOFLAGS=[^ ]* //; s/GOPROXY=[^ ]* //; s/GOSUMDB=[^ ]* //; s/GOTOOLCHAIN=[^ ]* //')
( eval "$CMD" ) > /tmp/vs.$ID.clean.log 2>&1; rc_clean=$?
git apply $OUT/patch.diff || { echo "{\"id\":\"$ID\",\"error\":\"patch does not apply\"}"; exit 2; }
go build ./... > /tmp/vs.$ID.build.log 2>&1; rc_build=$?
( eval "$CMD" ) > /tmp/vs.$ID.mut.log 2>&1; rc_mut=$?
git checkout -q -- .
echo "{\"id\":\"$ID\",\"demo_cmd\":\"$CMD\",\"demo_rc_without_patch\":$rc_clean,\"build_rc_with_patch\":$rc_build,\"demo_rc_with_patch\":$rc_mut}"
