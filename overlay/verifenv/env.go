// Package verifenv is the R-env seam: commands/root.go's execenv.NewEnv() is rewritten (in the
// overlay copy only) to verifenv.Track(execenv.NewEnv()), so that the simulator can emulate what
// the kernel does when a command's process exits: release the file handles (search index locks)
// the command left open - without any of git-bug's own clean-up.
package verifenv

import (
	"sync"

	"github.com/MichaelMure/git-bug/commands/execenv"
	"github.com/MichaelMure/git-bug/util/interrupt"
	"github.com/spf13/cobra"
)

var (
	mu   sync.Mutex
	last *execenv.Env
)

func Track(e *execenv.Env) *execenv.Env {
	mu.Lock()
	last = e
	mu.Unlock()
	return e
}

// ProcessExit releases what the last command left open. Reports whether the command had left
// its backend (cache) or repository open.
func ProcessExit() (leftBackendOpen bool) {
	mu.Lock()
	e := last
	last = nil
	mu.Unlock()
	if e == nil {
		return false
	}
	leftBackendOpen = e.Backend != nil
	if e.Repo != nil {
		_ = e.Repo.Close() // closes the index handles only; the lock file stays as it is
	}
	interrupt.VerifProcessExit()
	cobra.VerifProcessExit()
	return leftBackendOpen
}
