package sim

import (
	"fmt"
	"io"
	"os"
	"path/filepath"

	"github.com/MichaelMure/git-bug/commands"
	"github.com/MichaelMure/git-bug/zzverif/verifenv"
)

// RunCLI runs one git-bug command in-process, as a simulated process of its own, with the
// replica's directory as working directory. The replica's own handle must be closed.
// Returns what the command printed and its error.
func RunCLI(w *World, r *Replica, args ...string) (out string, err error) {
	if r.Raw != nil {
		return "", fmt.Errorf("RunCLI: replica %s is still open", r.Name)
	}
	if err := os.Chdir(r.Dir); err != nil {
		return "", err
	}
	tmp := filepath.Join(w.Root, fmt.Sprintf("cli-out-%d", w.nextPid))
	f, err := os.Create(tmp)
	if err != nil {
		return "", err
	}
	oldOut, oldErr, oldIn := os.Stdout, os.Stderr, os.Stdin
	os.Stdout, os.Stderr = f, f
	// a command that prompts reads an empty standard input (as when started with </dev/null),
	// whatever the simulator's own standard input is
	if devnull, e := os.Open(os.DevNull); e == nil {
		os.Stdin = devnull
		defer func() { os.Stdin = oldIn; _ = devnull.Close() }()
	}
	pid := w.NewPid()
	w.cur = r
	defer func() {
		os.Stdout, os.Stderr = oldOut, oldErr
		w.EndPid(pid)
		_ = f.Close()
		b, _ := os.ReadFile(tmp)
		out = string(b)
		_ = os.Remove(tmp)
		if rec := recover(); rec != nil {
			err = fmt.Errorf("PANIC in command %v: %v", args, rec)
		}
	}()
	root := commands.NewRootCommand()
	root.SetArgs(args)
	root.SetOut(io.Discard)
	root.SetErr(io.Discard)
	root.SetIn(nullReader{})
	err = root.Execute()
	// the process exits: whatever it left open is released by the kernel
	if verifenv.ProcessExit() {
		w.Stats.Probe("command_exited_with_backend_open")
	}
	return "", err
}

type nullReader struct{}

func (nullReader) Read(p []byte) (int, error) { return 0, io.EOF }
