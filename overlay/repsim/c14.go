package repsim

import (
	"crypto/sha256"
	"fmt"
	"os"
	"path/filepath"
	"regexp"
	"sort"
	"strings"

	"github.com/MichaelMure/git-bug/entities/bug"
	"github.com/MichaelMure/git-bug/entities/identity"
	"github.com/MichaelMure/git-bug/entity"
	"github.com/MichaelMure/git-bug/query"
	"github.com/MichaelMure/git-bug/zzverif/model"
	"github.com/MichaelMure/git-bug/zzverif/sim"
)

// frame is everything in the repository a removal must not touch.
type frame struct {
	Refs   map[string]string
	Config string
	Files  map[string]string // .git/git-bug minus cache, index and lock
}

func fileHash(p string) string {
	b, err := os.ReadFile(p)
	if err != nil {
		return "ERR"
	}
	s := sha256.Sum256(b)
	return fmt.Sprintf("%x", s[:8])
}

func (x *run) frameOf(rs *repState) *frame {
	f := &frame{Refs: map[string]string{}, Files: map[string]string{}}
	t, _ := sim.RefTable(rs.r.Raw, "refs/")
	for k, v := range t {
		f.Refs[k] = v
	}
	f.Config = fileHash(filepath.Join(rs.r.Dir, ".git", "config"))
	gb := filepath.Join(rs.r.Dir, ".git", "git-bug")
	_ = filepath.Walk(gb, func(p string, info os.FileInfo, err error) error {
		if err != nil || info.IsDir() {
			return nil
		}
		rel, _ := filepath.Rel(gb, p)
		if strings.HasPrefix(rel, "cache") || strings.HasPrefix(rel, "indexes") || rel == "lock" {
			return nil
		}
		f.Files[rel] = fileHash(p)
		return nil
	})
	return f
}

func entityRefs(ns, id string, remotes []string) map[string]bool {
	m := map[string]bool{"refs/" + ns + "/" + id: true}
	for _, r := range remotes {
		m["refs/remotes/"+r+"/"+ns+"/"+id] = true
	}
	return m
}

// stepRemoveChecked removes an entity and runs the whole C14 oracle around it.
func (x *run) stepRemoveChecked(rs *repState, s *sim.Step) error {
	r := rs.r
	ns := "bugs"
	var id string
	if s.K == "ident" || s.K == "ident-cli" {
		ns = "identities"
		// any identity but the replica's own user (removing the user identity is a different story)
		var pool []string
		for _, k := range x.knownIdents(rs) {
			if len(rs.own) > 0 && k == rs.own[0] {
				continue
			}
			pool = append(pool, string(k))
		}
		if len(pool) == 0 {
			return fmt.Errorf("no identity to remove")
		}
		id = pool[s.B%len(pool)]
		// an identity that authored local bugs cannot be removed without breaking them: skip those
		o := x.observe(rs)
		for _, b := range o.Bugs {
			if b.Ent == nil {
				continue
			}
			for _, c := range b.Ent.Topo {
				if c.Author == id {
					return fmt.Errorf("identity still authors local bugs")
				}
			}
		}
	} else {
		id = x.pickBug(rs, s.B)
		// through the entity API an entity can also be removed when it is only held as a
		// remote-tracking ref (fetched, not merged; or removed locally and fetched again)
		if r.Cache == nil && s.K == "" && s.N%3 == 0 {
			local := map[string]bool{}
			for _, l := range x.localBugIds(rs) {
				local[l] = true
			}
			var only []string
			refs, _ := r.Raw.ListRefs("refs/remotes/")
			for _, ref := range refs {
				p := strings.Split(ref, "/")
				if trackingRefRe.MatchString(ref) && p[len(p)-2] == "bugs" && !local[p[len(p)-1]] {
					only = append(only, p[len(p)-1])
				}
			}
			sort.Strings(only)
			if len(only) > 0 {
				id = only[s.B%len(only)]
				x.probe("removal_of_tracking_only_entity")
			}
		}
		if id == "" {
			return fmt.Errorf("no bug")
		}
	}
	x.stepCommit(rs, &sim.Step{})
	remotes := append([]string{}, r.Remotes...)
	before := x.frameOf(rs)
	mine := entityRefs(ns, id, remotes)
	holders := 0
	for ref := range mine {
		if _, ok := before.Refs[ref]; ok {
			holders++
		}
	}
	x.probe(fmt.Sprintf("removal_with_%d_refs", holders))
	x.probe(fmt.Sprintf("removal_with_%d_remotes", len(remotes)))

	remove := func() error {
		switch {
		case strings.HasSuffix(s.K, "cli"):
			if ns != "bugs" {
				return fmt.Errorf("no identity removal command")
			}
			_ = r.CloseClean()
			rs.alive = false
			_, err := sim.RunCLI(x.w, r, "bug", "rm", id[:s.N%20+8])
			if e2 := r.Open(); e2 != nil {
				x.res.HarnessErr = "reopen after CLI: " + e2.Error()
				return e2
			}
			rs.alive = true
			x.probe("removal_through_cli")
			return err
		case r.Cache != nil && ns == "bugs":
			return r.Cache.Bugs().Remove(id[:s.N%20+8])
		case r.Cache != nil:
			return r.Cache.Identities().Remove(id[:s.N%20+8])
		case ns == "bugs":
			return bug.Remove(r.Sim, entity.Id(id))
		default:
			return identity.Remove(r.Sim, entity.Id(id))
		}
	}
	// a first attempt cut short by a local I/O error (one call, or everything from some call on),
	// then the removal proper: a removal that reports success after that must have removed all of it
	interrupted := false
	if s.A%5 == 1 && !strings.HasSuffix(s.K, "cli") && r.C != nil {
		// the failing call is named by what it is (git-bug walks the remotes in Go map order, so the
		// number of a call is not a function of the plan): every write refused; the first mutation;
		// the local ref; the tracking ref of one given remote; the index entry; the cache file
		everything := s.N%6 == 0
		switch s.N % 6 {
		case 0:
			r.C.ArmErr("any", 0, 1000)
		case 1:
			r.C.ArmErr("any", 0, 1)
		case 2:
			r.C.ArmErrMatch(`^RemoveRef refs/`+ns+`/`, 1)
		case 3:
			rem := "none"
			if len(remotes) > 0 {
				rem = regexp.QuoteMeta(remotes[s.N/6%len(remotes)])
			}
			r.C.ArmErrMatch(`^RemoveRef refs/remotes/`+rem+`/`+ns+`/`, 1)
		case 4:
			r.C.ArmErrMatch(`^index\.Remove`, 1)
		default:
			r.C.ArmErrMatch(`^fs\.(Create|Write) cache/`+ns, 1)
		}
		err0 := x.guard("remove, interrupted", remove)
		if r.C.DisarmErr() > 0 {
			interrupted = true
			x.w.Stats.Fault("ioerr-any")
			x.probe("removal_first_attempt_met_an_io_error")
			if err0 == nil {
				x.probe("io_error_not_reported_by_the_step")
			}
			if everything {
				// while every call fails nothing can be cleaned up either: a temporary clock file
				// left by the interrupted attempt is not the removal's doing
				for k, v := range x.frameOf(rs).Files {
					if _, ok := before.Files[k]; !ok && tempClockRe.MatchString(k) {
						before.Files[k] = v
						x.probe("temporary_file_left_while_every_call_failed")
					}
				}
			}
		}
	}
	err := x.guard("remove", remove)
	if x.res.HarnessErr != "" {
		return err
	}
	if err != nil && interrupted {
		x.probe("removal_after_interrupted_attempt_refused")
		return err
	}
	if err != nil {
		// a refused removal must not have removed half of it
		after := x.frameOf(rs)
		gone, kept := 0, 0
		for ref := range mine {
			if _, ok := before.Refs[ref]; ok {
				if _, still := after.Refs[ref]; still {
					kept++
				} else {
					gone++
				}
			}
		}
		if gone > 0 && kept > 0 {
			x.violate("ref-survived", "removal of %s %s on %s failed (%v) after removing %d of its %d refs", ns, id[:7], r.Name, err, gone, gone+kept)
		}
		return err
	}
	x.ntProbes["removed"] = true
	rs.removed[id] = true
	delete(rs.staged, id)
	delete(rs.discarded, id)
	x.checkGone(rs, ns, id, remotes, before, "right after the removal")

	// ---- repeat the removal: no further harm
	mid := x.frameOf(rs)
	err2 := x.guard("remove again", remove)
	_ = err2
	again := x.frameOf(rs)
	if d := frameDiff(mid, again, nil); d != "" {
		x.violate("second-removal-harmful", "repeating the removal of %s %s on %s changed something: %s", ns, id[:7], r.Name, d)
	}
	x.probe("removal_repeated")

	// ---- merge again WITHOUT a new fetch: the entity must not come back
	for _, rem := range remotes {
		x.w.Act(r)
		if r.Cache != nil {
			for range r.Cache.MergeAll(rem) {
			}
		} else {
			for range identity.MergeAll(r.Sim, rem) {
			}
			if author, err := x.author(rs, 0); err == nil {
				for range bug.MergeAll(r.Sim, x.resolvers(rs), rem, author) {
				}
			}
		}
	}
	if ok, _ := r.Raw.RefExist("refs/" + ns + "/" + id); ok {
		x.violate("resurrected-without-fetch", "%s %s came back on %s after merging the remotes again without fetching", ns, id[:7], r.Name)
	}
	// ---- reopen
	if s.A%2 == 0 {
		_ = r.CloseClean()
		rs.staged = map[string]bool{}
		if err := r.Open(); err != nil {
			x.res.HarnessErr = "reopen: " + err.Error()
			return nil
		}
		x.checkGone(rs, ns, id, remotes, nil, "after close and reopen")
		x.probe("removal_checked_after_reopen")
	}
	// ---- rebuilt cache
	if r.Cache != nil {
		rebuilt, cleanup, err := x.rebuiltCache(rs)
		if err == nil {
			var err1 error
			if ns == "bugs" {
				_, err1 = rebuilt.Bugs().ResolveExcerpt(entity.Id(id))
			} else {
				_, err1 = rebuilt.Identities().ResolveExcerpt(entity.Id(id))
			}
			if err1 == nil {
				x.violate("still-resolvable", "%s %s is served again by a cache rebuilt on %s after its removal", ns, id[:7], r.Name)
			}
			cleanup()
			x.probe("removal_checked_after_rebuild")
		}
	}
	return nil
}

var tempClockRe = regexp.MustCompile(`^clock[0-9]+$`)

func frameDiff(a, b *frame, except map[string]bool) string {
	var d []string
	for k, v := range a.Refs {
		if except[k] {
			continue
		}
		if w, ok := b.Refs[k]; !ok {
			d = append(d, "ref "+k+" disappeared")
		} else if w != v {
			d = append(d, "ref "+k+" moved")
		}
	}
	for k := range b.Refs {
		if _, ok := a.Refs[k]; !ok && !except[k] {
			d = append(d, "ref "+k+" appeared")
		}
	}
	if a.Config != b.Config {
		d = append(d, ".git/config changed")
	}
	for k, v := range a.Files {
		if w, ok := b.Files[k]; !ok {
			d = append(d, "file git-bug/"+k+" disappeared")
		} else if w != v {
			d = append(d, "file git-bug/"+k+" changed")
		}
	}
	for k := range b.Files {
		if _, ok := a.Files[k]; !ok {
			d = append(d, "file git-bug/"+k+" appeared")
		}
	}
	sort.Strings(d)
	if len(d) > 6 {
		d = append(d[:6], fmt.Sprintf("... %d more", len(d)-6))
	}
	return strings.Join(d, "; ")
}

// checkGone: all of the entity is gone, only it, and it cannot be found any more.
func (x *run) checkGone(rs *repState, ns, id string, remotes []string, before *frame, when string) {
	r := rs.r
	mine := entityRefs(ns, id, remotes)
	after := x.frameOf(rs)
	for ref := range mine {
		if _, ok := after.Refs[ref]; ok {
			kind := "tracking-ref-survived"
			if !strings.HasPrefix(ref, "refs/remotes/") {
				kind = "ref-survived"
			}
			x.violate(kind, "%s: %s is still there after removing %s %s on %s (remotes %v)", when, ref, ns, id[:7], r.Name, remotes)
		}
	}
	if before != nil {
		if d := frameDiff(before, after, mine); d != "" {
			x.violate("frame-broken", "%s: removing %s %s on %s touched something else: %s", when, ns, id[:7], r.Name, d)
		}
	}
	// not found by id, prefix, query or search
	if r.Cache != nil {
		if ns == "bugs" {
			if _, err := r.Cache.Bugs().ResolveExcerpt(entity.Id(id)); err == nil {
				x.violate("cache-entry-survived", "%s: the cache of %s still has an excerpt for the removed bug %s", when, r.Name, id[:7])
			}
			if _, err := r.Cache.Bugs().Resolve(entity.Id(id)); err == nil {
				x.violate("still-resolvable", "%s: removed bug %s still resolves by its id through the cache of %s", when, id[:7], r.Name)
			}
			if _, err := r.Cache.Bugs().ResolvePrefix(id[:10]); err == nil {
				x.violate("still-resolvable", "%s: removed bug %s still resolves by prefix on %s", when, id[:7], r.Name)
			}
			for _, qs := range []string{"", "status:open", "status:closed", "sort:edit"} {
				q, err := query.Parse(qs)
				if err != nil {
					continue
				}
				ids, err := r.Cache.Bugs().Query(q)
				if err != nil {
					continue
				}
				for _, got := range ids {
					if string(got) == id {
						x.violate("still-resolvable", "%s: removed bug %s is returned by query %q on %s", when, id[:7], qs, r.Name)
					}
				}
			}
			if idx, err := r.Sim.GetIndex("bugs"); err == nil {
				for _, term := range []string{"kw0", "kw1", "kw2", "kw3", "crash", "the"} {
					hits, err := idx.Search([]string{term})
					if err != nil {
						continue
					}
					for _, h := range hits {
						if h == id {
							x.violate("index-doc-survived", "%s: the search index of %s still returns the removed bug %s for %q", when, r.Name, id[:7], term)
						}
					}
				}
			}
		} else {
			if _, err := r.Cache.Identities().ResolveExcerpt(entity.Id(id)); err == nil {
				x.violate("cache-entry-survived", "%s: the cache of %s still has an excerpt for the removed identity %s", when, r.Name, id[:7])
			}
			if _, err := r.Cache.Identities().Resolve(entity.Id(id)); err == nil {
				x.violate("still-resolvable", "%s: removed identity %s still resolves by its id through the cache of %s", when, id[:7], r.Name)
			}
		}
	} else {
		o := r.Observer()
		if ns == "bugs" {
			if _, err := bug.Read(o, entity.Id(id)); err == nil {
				x.violate("still-resolvable", "%s: removed bug %s is still readable on %s", when, id[:7], r.Name)
			}
		} else if _, err := identity.ReadLocal(o, entity.Id(id)); err == nil {
			x.violate("still-resolvable", "%s: removed identity %s is still readable on %s", when, id[:7], r.Name)
		}
	}
}

// stepWipe wipes the repository through the CLI and checks that nothing of git-bug is left.
func (x *run) stepWipe(rs *repState, s *sim.Step) error {
	r := rs.r
	x.stepCommit(rs, &sim.Step{})
	if r.Cache != nil && r.C != nil && s.Id%2 == 0 {
		// what the wipe command is built on, met by one I/O error: a RemoveAll that reports success
		// all the same must have removed every bug and identity
		// (the bugs and the identities are removed by two goroutines, in an order that follows Go map
		// iteration and a shared permutation stream: the failing call is named by the very ref it
		// removes, or by the one index or cache file it clears)
		var pats []string
		all, _ := r.Raw.ListRefs("refs/")
		sort.Strings(all)
		for _, ref := range all {
			if isGitBugRef(ref) {
				pats = append(pats, `^RemoveRef `+regexp.QuoteMeta(ref)+`$`)
			}
		}
		pats = append(pats, `^index\.Clear bugs`, `^index\.Clear identities`, `^fs\.(Create|Write) cache/bugs`, `^fs\.(Create|Write) cache/identities`)
		r.C.ArmErrMatch(pats[(s.Id/2+s.N)%len(pats)], 1)
		err := r.Cache.RemoveAll()
		if r.C.DisarmErr() > 0 {
			x.w.Stats.Fault("ioerr-any")
			x.probe("remove_all_met_an_io_error")
			if err == nil {
				x.probe("io_error_not_reported_by_the_step")
				refs, _ := r.Raw.ListRefs("refs/")
				for _, ref := range refs {
					if isGitBugRef(ref) {
						x.violate("wipe-left-residue", "RemoveAll on %s met an I/O error at one of its storage mutations and reported success, but the ref %s is still there", r.Name, ref)
						break
					}
				}
			} else {
				// half of it is gone (say the identities, while bugs they authored remain): what a
				// wipe makes of such a repository is not stated anywhere, and the wipe command does
				// fail on it (§9.3). The replica leaves the run here.
				x.probe("remove_all_failed_half_way_replica_retired")
				_ = r.CloseClean()
				rs.alive = false
				rs.staged = map[string]bool{}
				rs.wiped = true
				return nil
			}
		}
	}
	_ = r.CloseClean()
	rs.alive = false
	rs.staged = map[string]bool{}
	if s.N%2 == 1 {
		// a configured bridge: git-bug configuration below a subsection
		if raw0, err := openRaw(r.Dir); err == nil {
			for k, v := range map[string]string{"target": "gitlab", "project-id": "42", "base-url": "https://gitlab.example.org", "default-login": "someone"} {
				_ = raw0.LocalConfig().StoreString("git-bug.bridge.sim."+k, v)
			}
			_ = raw0.Close()
			x.probe("wipe_with_bridge_configured")
		}
	}
	foreign := map[string]string{}
	if raw0, err := openRaw(r.Dir); err == nil {
		t, _ := sim.RefTable(raw0, "refs/")
		for k, v := range t {
			if !isGitBugRef(k) {
				foreign[k] = v
			}
		}
		_ = raw0.Close()
	}
	_, err := sim.RunCLI(x.w, r, "wipe")
	x.probe("wipe")
	if err != nil {
		x.violate("wipe-left-residue", "wipe on %s failed: %v", r.Name, err)
		return err
	}
	x.ntProbes["removed"] = true
	raw, err := openRaw(r.Dir)
	if err != nil {
		x.res.HarnessErr = "open after wipe: " + err.Error()
		return err
	}
	defer raw.Close()
	after, _ := sim.RefTable(raw, "refs/")
	for k, v := range foreign {
		if after[k] != v {
			x.violate("frame-broken", "wipe on %s touched a ref that is not git-bug's: %s went from %s to %q", r.Name, k, v, after[k])
		}
	}
	refs, _ := raw.ListRefs("refs/")
	for _, ref := range refs {
		if strings.HasPrefix(ref, "refs/bugs/") || strings.HasPrefix(ref, "refs/identities/") ||
			(strings.HasPrefix(ref, "refs/remotes/") && (strings.Contains(ref, "/bugs/") || strings.Contains(ref, "/identities/"))) {
			x.violate("wipe-left-residue", "after wipe on %s the ref %s is still there", r.Name, ref)
		}
	}
	cfg, _ := raw.LocalConfig().ReadAll("git-bug")
	for k := range cfg {
		x.violate("wipe-left-residue", "after wipe on %s the configuration key %s is still there", r.Name, k)
	}
	// and as stock git would see the file (sections and subsections alike)
	for k := range parseGitConfig(filepath.Join(r.Dir, ".git", "config")) {
		if strings.HasPrefix(k, "git-bug.") {
			x.violate("wipe-left-residue", "after wipe on %s the configuration file still holds %s", r.Name, k)
		}
	}
	if _, err := os.Stat(filepath.Join(r.Dir, ".git", "git-bug")); err == nil {
		entries, _ := os.ReadDir(filepath.Join(r.Dir, ".git", "git-bug"))
		var names []string
		for _, e := range entries {
			names = append(names, e.Name())
		}
		if len(names) > 0 {
			x.violate("wipe-left-residue", "after wipe on %s .git/git-bug still holds %v", r.Name, names)
		}
	}
	// the replica is gone for the rest of the run
	rs.wiped = true
	return nil
}

var _ = model.RefId
