// Package schedsim is the seeded goroutine scheduler over the real cache (C18): N workers
// run generated scripts of cache calls as real goroutines, parked at every lock acquisition,
// I/O point and call boundary; exactly one runs at a time and the PRNG chooses who runs next
// among the workers whose wanted lock probes free.
package schedsim

import (
	"os"
	"fmt"
	"sort"
	"sync"
	"time"

	"github.com/MichaelMure/git-bug/zzverif/sim"
	"github.com/MichaelMure/git-bug/zzverif/verifrt"
)

type worker struct {
	id       int
	resume   chan struct{}
	done     bool
	wantLock interface{} // mutex pointer the worker is parked in front of (nil = plain yield)
	wantMode string
	site     string
	started  bool
}

type event struct {
	w    *worker
	kind string // "park" | "done"
}

type scheduler struct {
	rng      *sim.Rand
	workers  []*worker
	current  *worker
	events   chan event
	mu       sync.Mutex
	Decisions []int  // chosen worker ids, in order (the schedule)
	Forced   []int   // replay: decisions to follow (nil = draw)
	Seq      uint64  // global event sequence number (stamps invoke/return)
	Deadlock string
	Stuck    string
	parks    int
	lockSites map[string]int
	maxDecisions int
}

func newScheduler(rng *sim.Rand, n int) *scheduler {
	s := &scheduler{rng: rng, events: make(chan event), lockSites: map[string]int{}, maxDecisions: 200000}
	for i := 0; i < n; i++ {
		s.workers = append(s.workers, &worker{id: i})
	}
	return s
}

// install routes the instrumentation hooks to this scheduler.
func (s *scheduler) install() {
	verifrt.SetSchedHooks(func(m interface{}, mode string, site string) {
		s.park(m, mode, site)
	}, func(kind string, site string) {
		s.park(nil, "", kind+" "+site)
	})
}

func (s *scheduler) uninstall() { verifrt.SetSchedHooks(nil, nil) }

// park is called on the running worker's goroutine: hand control to the scheduler and
// wait to be chosen again.
func (s *scheduler) park(m interface{}, mode, site string) {
	s.mu.Lock()
	w := s.current
	s.mu.Unlock()
	if w == nil {
		return // outside the scheduled phase (set-up, final checks)
	}
	w.wantLock, w.wantMode, w.site = m, mode, site
	ch := make(chan struct{})
	w.resume = ch
	s.events <- event{w, "park"}
	<-ch
}

// tick returns the next global sequence number.
func (s *scheduler) tick() uint64 {
	s.mu.Lock()
	defer s.mu.Unlock()
	s.Seq++
	return s.Seq
}

func probe(m interface{}, mode string) bool {
	switch l := m.(type) {
	case *sync.Mutex:
		if l.TryLock() {
			l.Unlock()
			return true
		}
		return false
	case *sync.RWMutex:
		if mode == "r" {
			if l.TryRLock() {
				l.RUnlock()
				return true
			}
			return false
		}
		if l.TryLock() {
			l.Unlock()
			return true
		}
		return false
	}
	return true
}

// runnable: parked at a plain yield, or in front of a lock that probes free. A parked writer
// on a RWMutex that is currently read-held is a pending writer: it blocks new readers,
// as sync.RWMutex does.
func (s *scheduler) runnable() []*worker {
	pendingWriter := map[interface{}]bool{}
	for _, w := range s.workers {
		if !w.done && w.started && w.wantLock != nil && w.wantMode == "w" {
			if rw, ok := w.wantLock.(*sync.RWMutex); ok {
				if !probe(rw, "w") {
					pendingWriter[w.wantLock] = true
				}
			}
		}
	}
	var out []*worker
	for _, w := range s.workers {
		if w.done {
			continue
		}
		if w.wantLock == nil {
			out = append(out, w)
			continue
		}
		if w.wantMode == "r" && pendingWriter[w.wantLock] {
			continue
		}
		if probe(w.wantLock, w.wantMode) {
			out = append(out, w)
		}
	}
	return out
}

// run starts the worker bodies and schedules them until all are done, a deadlock is
// found, or a worker gets stuck outside the scheduler's control.
func (s *scheduler) run(bodies []func()) {
	for i, body := range bodies {
		w := s.workers[i]
		body := body
		ch := make(chan struct{})
		w.resume = ch
		w.started = true
		w.site = "start"
		go func() {
			<-ch
			defer func() {
				if r := recover(); r != nil {
					verifrt.RecordPanic(fmt.Sprintf("worker %d", w.id), r)
				}
				w.done = true
				s.events <- event{w, "done"}
			}()
			body()
		}()
	}
	for {
		rs := s.runnable()
		alive := 0
		for _, w := range s.workers {
			if !w.done {
				alive++
			}
		}
		if alive == 0 {
			break
		}
		if len(rs) == 0 {
			var parts []string
			for _, w := range s.workers {
				if !w.done {
					parts = append(parts, fmt.Sprintf("worker %d blocked on %s lock at %s", w.id, w.wantMode, w.site))
				}
			}
			sort.Strings(parts)
			s.Deadlock = fmt.Sprintf("%d unfinished workers, none can proceed: %v", alive, parts)
			break
		}
		var pick *worker
		if len(s.Decisions) < len(s.Forced) {
			want := s.Forced[len(s.Decisions)]
			for _, w := range rs {
				if w.id == want {
					pick = w
				}
			}
		}
		if pick == nil {
			pick = rs[s.rng.Intn(len(rs))]
		}
		s.Decisions = append(s.Decisions, pick.id)
		if os.Getenv("VERIF_TRACE_STEPS") != "" {
			fmt.Fprintf(os.Stderr, "sched: w%d %s %s\n", pick.id, pick.wantMode, pick.site)
		}
		if len(s.Decisions) > s.maxDecisions {
			s.Stuck = "too many scheduling decisions (livelock?)"
			break
		}
		s.mu.Lock()
		s.current = pick
		s.mu.Unlock()
		if pick.wantLock != nil {
			s.lockSites[pick.site]++
		}
		s.parks++
		close(pick.resume)
		select {
		case <-s.events:
		case <-time.After(30 * time.Second):
			s.Stuck = fmt.Sprintf("worker %d did not come back to the scheduler within 30 s after %s (blocked outside the instrumented lock sites?)", pick.id, pick.site)
			s.mu.Lock()
			s.current = nil
			s.mu.Unlock()
			return
		}
	}
	s.mu.Lock()
	s.current = nil
	s.mu.Unlock()
}
