#!/bin/bash
# tools/dettest.sh <prop> <runs> : determinism proof on a sample - the same run indices executed in
# several fresh processes at GOMAXPROCS 1/4/16; per-run log hashes and violation counts must agree.
PROP=$1; N=${2:-200}
HERE=$(cd "$(dirname "$0")/.." && pwd)
BIN=$HERE/bin/verifsim.det.$$
# build against a private clone of /repo's HEAD: patches being tried in /repo's working tree must not leak in
SNAP=$(mktemp -d /dev/shm/repo-snap.XXXXXX)
git clone -q /repo $SNAP || exit 2
cd $HERE && VERIF_REPO=$SNAP ./build.sh $BIN; brc=$?
rm -rf $SNAP
[ $brc -eq 0 ] || exit 2
D=$(mktemp -d /dev/shm/dettest.XXXX)
i=0
for gmp in 1 4 16 4; do
  for sh in 0 1 2 3; do
    ( GOMAXPROCS=$gmp VERIF_RUN_HASHES=1 VERIF_MAX_RUNS=$N VERIF_BUDGET_S=600 $BIN shard $PROP --tier quick --seed ${VERIF_SEED:-1} --shard $sh/4 --out $D/r$i.s$sh.json ) &
  done
  wait
  i=$((i+1))
done
python3 - $D <<'PY'
import json,sys,glob,collections
d=sys.argv[1]
runs=collections.defaultdict(dict)
viol=collections.defaultdict(dict)
for f in sorted(glob.glob(d+'/r*.json')):
    rep=f.split('/')[-1].split('.')[0]
    j=json.load(open(f))
    for k,v in j['run_hashes'].items(): runs[k][rep]=v
    viol[rep][f]=j['viol_count']
bad=[k for k,v in runs.items() if len(set(v.values()))>1]
print("runs compared:",len(runs),"repetitions:",len(next(iter(runs.values()))), "divergent runs:",len(bad), sorted(bad,key=int)[:20])
tot=collections.defaultdict(lambda: collections.Counter())
for rep,fs in viol.items():
    for f,vc in fs.items():
        for k,n in vc.items(): tot[rep][k]+=n
print("violation counts per repetition:",{r:dict(c) for r,c in tot.items()})
sys.exit(1 if bad else 0)
PY
rc=$?
rm -rf $D $BIN $BIN.stats.json
exit $rc
