// Package procsim simulates several git-bug processes (simulator-assigned pids, kill = I/O
// freeze at a chosen storage mutation) opening, using, closing or dying on one repository,
// through cache.NewRepoCache and through the in-process cobra command tree. Decides C19.
package procsim

import (
	"fmt"
	"os"
	"path/filepath"
	"sort"
	"strings"

	"github.com/spf13/cobra"

	"github.com/MichaelMure/git-bug/cache"
	"github.com/MichaelMure/git-bug/commands"
	"github.com/MichaelMure/git-bug/entity"
	"github.com/MichaelMure/git-bug/repository"
	"github.com/MichaelMure/git-bug/zzverif/model"
	"github.com/MichaelMure/git-bug/zzverif/sim"
	"github.com/MichaelMure/git-bug/zzverif/verifrt"
)

type Engine struct{}

func (e *Engine) Name() string { return "procsim" }

func init() { sim.Register(&Engine{}, "C19") }

func (e *Engine) Describe(prop string) sim.PropInfo {
	return sim.PropInfo{Level: "fault_enumeration",
		Rule: "2-3 simulated processes (pids owned by the simulator) on one repository: generated orders of open / use (edit+commit) / close / kill, a kill being placed at EVERY storage mutation index inside open, inside use and inside close (file-system calls on .git/git-bug included, with torn variants of the lock-file write: nothing / all / first byte), interleaved with commands of the real cobra tree (every leaf discovered at run time except the interactive ones) run in-process as simulated processes with valid and invalid arguments, with and without a configured user; evaluations = actions judged; non-trivial = run in which a process was refused or killed; distinct = distinct event-log hash",
		Kinds: []string{"second-open-accepted", "refusal-without-holder", "refusal-changed-state", "live-lock-removed", "open-failed-after-close", "open-failed-after-death", "lock-left-by-command", "panic"},
		Real:  []string{"cache.NewRepoCache / Close lock protocol", "util/process.IsRunning against real operating-system processes, in the runs (one in eight) whose simulated processes carry the pids of real idle children; a kill there is SIGKILL and a reap", "commands (cobra tree, in-process)", "commands/execenv loaders", "repository.GoGitRepo on tmpfs"},
		Stub:  []string{"operating-system processes: simulated (pid table in the simulator, os.Getpid and process.IsRunning rewritten by R-pid; in seven runs of eight liveness is answered by the table, in one by git-bug's own process.IsRunning)", "process death: I/O freeze of that process's handle at a chosen mutation", "SIGINT-driven cleanup (util/interrupt) is not simulated"},
		Assumptions: []string{
			"two opens are not interleaved inside the availability check (the code documents that race as out of scope); processes act one after the other",
			"a refusal may report the holder's pid in any wording as long as the number appears in the error",
			"interactive commands (termui, webui) and the prompting `bridge new` / `bridge auth add-token` are excluded",
		}}
}

func (e *Engine) Simplify(s sim.Step) []sim.Step {
	if s.F != "" {
		c := s
		c.F = ""
		return []sim.Step{c}
	}
	return nil
}

func (e *Engine) Generate(prop, tier string, seed uint64, run int) *sim.Plan {
	rs := sim.Mix(seed, uint64(run)+0xC19)
	r := sim.NewRand(rs)
	p := &sim.Plan{Property: prop, Engine: "procsim", Tier: tier, Seed: seed, Run: run, RunSeed: rs, Cfg: map[string]interface{}{}}
	np := r.Range(2, 3)
	p.Cfg["procs"] = np
	p.Cfg["user"] = !r.Chance(0.3) // some repositories have no user identity configured
	// one run in eight: every simulated process carries the pid of a real idle child, and liveness
	// is answered by git-bug's own util/process.IsRunning (a stream of its own: the plans stay as they were)
	p.Cfg["real_pids"] = sim.NewRand(sim.Mix(rs, 0x51D)).Chance(0.125)
	n := r.Range(6, 18)
	if tier == "thorough" {
		n = r.Range(10, 40)
	}
	for i := 0; i < n; i++ {
		st := sim.Step{Id: i + 1, R: r.Intn(np), N: r.Intn(12), B: r.Intn(8)}
		st.Op = []string{"open", "open", "open", "close", "close", "use", "kill-open", "kill-use", "kill-close", "kill-idle", "cmd", "cmd", "cmd", "stall-close"}[r.Intn(14)]
		if strings.HasPrefix(st.Op, "kill-") {
			st.F = []string{"", "", "new", "prefix:1"}[r.Intn(4)]
		}
		if st.Op == "cmd" {
			st.A = r.Intn(1000)
			st.K = []string{"valid", "valid", "invalid"}[r.Intn(3)]
		}
		p.Steps = append(p.Steps, st)
	}
	return p
}

type proc struct {
	id    int
	pid   int
	live  bool // process exists
	open  bool // holds the cache
	raw   *repository.GoGitRepo
	c     *sim.Control
	cache *cache.RepoCache
}

type exec struct {
	p      *sim.Plan
	w      *sim.World
	res    *sim.RunResult
	dir    string
	gb     string
	procs  []*proc
	viol   map[string]bool
	step   int
	bugId  string
	lastHolderEnd string // "closed" | "died" | ""
	nt     bool
}

func (x *exec) violate(kind, format string, a ...interface{}) {
	if x.viol[kind] {
		return
	}
	x.viol[kind] = true
	x.res.Violations = append(x.res.Violations, sim.Violation{Property: x.p.Property, Kind: kind, Detail: fmt.Sprintf(format, a...), Step: x.step})
}

func (x *exec) holder() *proc {
	for _, p := range x.procs {
		if p.live && p.open {
			return p
		}
	}
	return nil
}

func (x *exec) lockContent() (string, bool) {
	b, err := os.ReadFile(filepath.Join(x.gb, "lock"))
	if err != nil {
		return "", false
	}
	return string(b), true
}

// stateSig: what a refused open must not change.
func (x *exec) stateSig() string {
	var parts []string
	lock, ok := x.lockContent()
	parts = append(parts, fmt.Sprintf("lock=%v:%s", ok, lock))
	raw, err := repository.OpenGoGitRepo(x.dir, "git-bug", nil)
	if err == nil {
		t, _ := sim.RefTable(raw, "refs/")
		var ks []string
		for k, v := range t {
			ks = append(ks, k+"="+v)
		}
		sort.Strings(ks)
		parts = append(parts, ks...)
		_ = raw.Close()
	}
	for _, f := range []string{"cache/bugs", "cache/identities"} {
		b, err := os.ReadFile(filepath.Join(x.gb, f))
		parts = append(parts, fmt.Sprintf("%s=%v:%s", f, err == nil, model.Sha256Hex(b)[:12]))
	}
	return strings.Join(parts, "\n")
}

func (x *exec) invariants(after string) {
	if h := x.holder(); h != nil {
		lock, ok := x.lockContent()
		if !ok || lock != fmt.Sprint(h.pid) {
			x.violate("live-lock-removed", "%s: process %d (pid %d) holds the cache but the lock file is %q (exists %v)", after, h.id, h.pid, lock, ok)
		}
	}
	for _, pr := range verifrt.TakePanics() {
		x.violate("panic", "panic in %s: %s", pr.Site, pr.Value)
	}
}

// startOpen creates the process and opens repository and cache; kill >= 0 kills the process at
// that storage mutation of the opening (torn as given).
func (x *exec) startOpen(p *proc, kill int, torn string) (opened bool, died bool, err error) {
	p.pid = x.w.NewPid()
	p.live = true
	raw, err := repository.OpenGoGitRepo(x.dir, "git-bug", sim.Loaders)
	if err != nil {
		p.live = false
		x.w.EndPid(p.pid)
		return false, false, fmt.Errorf("open repository: %w", err)
	}
	p.raw = raw
	p.c = sim.NewControl(fmt.Sprintf("p%d", p.id), x.w.Log)
	// opening a cache that has to be rebuilt runs the two sub-cache builders side by side; which
	// of their file creations is "mutation k" of a kill is theirs to race for. The run hash takes
	// the outcomes of the steps (opened, refused, died, command result), not the storage calls.
	p.c.Unhashed = true
	sim.RegisterFSControl(x.gb, p.c)
	sr := sim.NewSimRepo(raw, p.c, "")
	if kill >= 0 {
		p.c.CrashAt = kill
		p.c.Torn = torn
	}
	c, err := func() (c *cache.RepoCache, err error) {
		defer func() {
			if r := recover(); r != nil {
				verifrt.RecordPanic("cache open", r)
				err = fmt.Errorf("PANIC: %v", r)
			}
		}()
		return cache.NewRepoCacheNoEvents(sr)
	}()
	if p.c.Crashed {
		x.die(p)
		return false, true, nil
	}
	p.c.CrashAt = -1
	if err != nil {
		// refused: the process reports the error and exits
		_ = raw.Close()
		sim.UnregisterFSControl(x.gb, p.c)
		p.live = false
		x.w.EndPid(p.pid)
		return false, false, err
	}
	p.cache = c
	p.open = true
	return true, false, nil
}

func (x *exec) die(p *proc) {
	if p.c != nil {
		p.c.Freeze()
		sim.UnregisterFSControl(x.gb, p.c)
	}
	if p.raw != nil {
		_ = p.raw.Close() // the kernel releases the index files
	}
	wasHolder := p.open
	p.live, p.open, p.cache, p.raw = false, false, nil, nil
	x.w.EndPid(p.pid)
	x.w.Stats.Fault("process-killed")
	if wasHolder {
		x.lastHolderEnd = "died"
	}
	x.nt = true
}

func (x *exec) act(p *proc) {
	x.w.SetCurPid(p.pid)
	if p.c != nil && p.live {
		sim.RegisterFSControl(x.gb, p.c)
	}
}

func (e *Engine) Execute(p *sim.Plan, keepLog bool) (res *sim.RunResult) {
	res = &sim.RunResult{}
	w := sim.NewWorld(p.RunSeed, keepLog)
	defer w.Close()
	w.RealPids = p.CfgBool("real_pids")
	x := &exec{p: p, w: w, res: res, viol: map[string]bool{}}
	defer func() {
		if r := recover(); r != nil {
			res.HarnessErr = fmt.Sprintf("harness panic at step %d: %v", x.step, r)
		}
		res.LogHash = w.Log.Hash()
		res.Faults = w.Stats.Faults
		res.Probes = w.Stats.Probes
		if keepLog {
			res.Trace = w.Log.Lines
		}
		if x.nt {
			res.NTKey = "refused-or-killed"
		}
	}()
	// ---- the repository: one bug, optionally a configured user
	setup := w.AddReplica("repo", "cache", 1_700_000_000)
	w.Act(setup)
	sim.SetRandStep(1)
	if err := setup.Init(); err != nil {
		res.HarnessErr = err.Error()
		return res
	}
	user, err := setup.Cache.Identities().New("someone", "some@example.org")
	if err != nil {
		res.HarnessErr = err.Error()
		return res
	}
	b, _, err := setup.Cache.Bugs().NewRaw(user, setup.Wall, "the bug", "body", nil, nil)
	if err != nil {
		res.HarnessErr = err.Error()
		return res
	}
	x.bugId = string(b.Id())
	if p.CfgBool("user") {
		if err := setup.Cache.SetUserIdentity(user); err != nil {
			res.HarnessErr = err.Error()
			return res
		}
	}
	hub := w.AddHub("hub0")
	_ = setup.AddRemote("hub0", hub)
	if err := setup.CloseClean(); err != nil {
		res.HarnessErr = "close after set-up: " + err.Error()
		return res
	}
	x.dir = setup.Dir
	x.gb = filepath.Join(setup.Dir, ".git", "git-bug")
	w.Act(nil)
	w.Log.EndStep("setup", true)
	for i := 0; i < p.CfgInt("procs", 2); i++ {
		x.procs = append(x.procs, &proc{id: i})
	}
	leaves := commandLeaves()

	for i := range p.Steps {
		st := &p.Steps[i]
		x.step = i
		res.Steps++
		res.Cases++
		sim.SetRandStep(uint64(100 + st.Id))
		pr := x.procs[st.R%len(x.procs)]
		label := fmt.Sprintf("step %d %s p%d", st.Id, st.Op, pr.id)
		if os.Getenv("VERIF_TRACE_STEPS") != "" {
			fmt.Fprintln(os.Stderr, "procsim:", label, sim.StepString(*st))
		}
		switch st.Op {
		case "open", "kill-open":
			if pr.live {
				break // that process is busy (it already holds the cache)
			}
			h := x.holder()
			before := x.stateSig()
			kill := -1
			if st.Op == "kill-open" {
				kill = st.N % 8
			}
			opened, died, err := x.startOpen(pr, kill, st.F)
			w.Log.Add("open p%d -> opened=%v died=%v ok=%v", pr.id, opened, died, err == nil)
			w.Log.Note("open error: %v", err)
			switch {
			case died:
				w.Stats.Probe("killed_inside_open")
				if h != nil {
					if x.stateSig() != before {
						x.violate("refusal-changed-state", "process %d was killed while opening a cache held by live pid %d, and the lock file, refs or cache files changed", pr.id, h.pid)
					}
				} else {
					x.lastHolderEnd = "died"
				}
			case h != nil:
				x.nt = true
				w.Stats.Probe("open_while_held")
				if opened {
					x.violate("second-open-accepted", "process %d (pid %d) opened the cache while live process %d (pid %d) holds it", pr.id, pr.pid, h.id, h.pid)
					// keep the ledger consistent: the newcomer is dropped without touching the lock
					pr.live, pr.open = false, false
				} else {
					if err == nil || !strings.Contains(err.Error(), fmt.Sprint(h.pid)) {
						x.violate("refusal-without-holder", "the refusal does not name the holder pid %d: %v", h.pid, err)
					}
					if x.stateSig() != before {
						x.violate("refusal-changed-state", "a refused open changed the lock file, refs or cache files")
					}
				}
			default:
				if !opened {
					kind := "open-failed-after-close"
					if x.lastHolderEnd == "died" {
						kind = "open-failed-after-death"
					}
					lock, ok := x.lockContent()
					x.violate(kind, "nobody holds the cache (last holder %s) but process %d cannot open it: %v (lock file exists=%v content=%q)", x.lastHolderEnd, pr.id, err, ok, lock)
				} else {
					w.Stats.Probe("open_" + x.lastHolderEnd + "_ok")
					res.StepsOK++
				}
			}
		case "close", "kill-close":
			if !pr.open {
				break
			}
			x.act(pr)
			if st.Op == "kill-close" {
				pr.c.CrashAt = pr.c.MutCount() + st.N%4
				pr.c.Torn = st.F
			}
			err := pr.cache.Close()
			if pr.c.Crashed {
				w.Stats.Probe("killed_inside_close")
				x.die(pr)
				break
			}
			pr.c.CrashAt = -1
			if err != nil {
				w.Log.Note("close error: %v", err)
			}
			sim.UnregisterFSControl(x.gb, pr.c)
			pr.live, pr.open, pr.cache, pr.raw = false, false, nil, nil
			w.EndPid(pr.pid)
			x.lastHolderEnd = "closed"
			if lock, ok := x.lockContent(); ok && err == nil {
				x.violate("lock-left-by-command", "process %d closed the cache cleanly but the lock file is still there (%q)", pr.id, lock)
			}
			res.StepsOK++
		case "stall-close":
			// a slow holder: its Close is held at the point where it closes the repository handle, or
			// where it removes a file (the lock), and another process tries to open meanwhile. Until
			// the holder is done it still has the cache, so the newcomer must be refused.
			if !pr.open {
				break
			}
			var other *proc
			for _, o := range x.procs {
				if o != pr && !o.live {
					other = o
				}
			}
			if other == nil {
				break
			}
			x.act(pr)
			pr.c.StallKind = []string{"Close", "fs.Remove"}[st.N%2]
			pr.c.Stalled, pr.c.Release = make(chan struct{}), make(chan struct{})
			done := make(chan error, 1)
			go func(c *cache.RepoCache) { done <- c.Close() }(pr.cache)
			var cerr error
			finished := false
			select {
			case <-pr.c.Stalled:
				w.Stats.Fault("holder-stalled-in-close")
				x.nt = true
				if lock, ok := x.lockContent(); !ok || lock != fmt.Sprint(pr.pid) {
					// nothing stops a newcomer any more (a real one would get in, and then wait on
					// the index files the holder has still open: not tried here, it would block)
					x.violate("live-lock-removed", "process %d (pid %d) has not finished closing the cache (held at %s) but its lock file is gone (content %q, exists %v)", pr.id, pr.pid, []string{"the close of its repository handle", "the removal of a file"}[st.N%2], lock, ok)
					x.act(pr)
					close(pr.c.Release)
					cerr = <-done
					break
				}
				opened, died, oerr := x.startOpen(other, -1, "")
				w.Log.Add("open p%d during the stalled close of p%d -> opened=%v", other.id, pr.id, opened)
				w.Log.Note("open error: %v", oerr)
				if opened || died {
					x.violate("second-open-accepted", "process %d (pid %d) opened the cache while process %d (pid %d) had not finished closing it (held at %s)", other.id, other.pid, pr.id, pr.pid, []string{"the close of its repository handle", "the removal of a file"}[st.N%2])
					if opened {
						_ = other.cache.Close()
						sim.UnregisterFSControl(x.gb, other.c)
						other.live, other.open, other.cache, other.raw = false, false, nil, nil
						w.EndPid(other.pid)
					}
				} else if oerr != nil && !strings.Contains(oerr.Error(), fmt.Sprint(pr.pid)) {
					x.violate("refusal-without-holder", "the open refused during the stalled close of pid %d does not name it: %v", pr.pid, oerr)
				}
				x.act(pr)
				close(pr.c.Release)
				cerr = <-done
			case cerr = <-done:
				finished = true
			}
			_ = finished
			pr.c.StallKind = ""
			if cerr != nil {
				w.Log.Note("close error: %v", cerr)
			}
			sim.UnregisterFSControl(x.gb, pr.c)
			pr.live, pr.open, pr.cache, pr.raw = false, false, nil, nil
			w.EndPid(pr.pid)
			x.lastHolderEnd = "closed"
			res.StepsOK++
		case "use", "kill-use":
			if !pr.open {
				break
			}
			x.act(pr)
			if st.Op == "kill-use" {
				pr.c.CrashAt = pr.c.MutCount() + st.N
				pr.c.Torn = st.F
			}
			func() {
				defer func() {
					if r := recover(); r != nil {
						verifrt.RecordPanic("use", r)
					}
				}()
				bc, err := pr.cache.Bugs().Resolve(entity.Id(x.bugId))
				if err == nil {
					if _, _, err = bc.AddComment(fmt.Sprintf("comment by p%d at step %d", pr.id, st.Id)); err == nil {
						_ = bc.Commit()
					}
				}
			}()
			if pr.c.Crashed {
				w.Stats.Probe("killed_inside_use")
				x.die(pr)
				break
			}
			pr.c.CrashAt = -1
			res.StepsOK++
		case "kill-idle":
			if pr.live {
				x.die(pr)
			}
		case "cmd":
			// a command is a process of its own
			h := x.holder()
			leaf := leaves[st.A%len(leaves)]
			args := leafArgs(leaf, x.bugId, st.K == "valid")
			before := x.stateSig()
			lockBefore, hadLock := x.lockContent()
			cliRep := &sim.Replica{W: w, Name: "cli", Dir: x.dir}
			_, err := sim.RunCLI(w, cliRep, args...)
			w.Stats.Probe("command_run")
			w.Log.Add("cmd %v ok=%v", args, err == nil)
			w.Log.Note("cmd error: %v", err)
			usesBackend := leaf.backend
			if h != nil {
				x.nt = true
				if usesBackend {
					if err == nil {
						x.violate("second-open-accepted", "command %v ran while live process %d (pid %d) holds the cache", args, h.id, h.pid)
					} else if !strings.Contains(err.Error(), fmt.Sprint(h.pid)) && !strings.Contains(err.Error(), "PANIC") {
						// the command may fail earlier for another reason (bad arguments are checked later, so this is the lock)
						w.Stats.Probe("command_failed_otherwise_while_held")
					}
					if x.stateSig() != before {
						x.violate("refusal-changed-state", "command %v, refused because pid %d holds the cache, changed the lock file, refs or cache files", args, h.pid)
					}
				}
			} else {
				// a stale lock of a dead process that a command not using the cache did not touch is not its doing
				if lock, ok := x.lockContent(); ok && (usesBackend || !hadLock || lock != lockBefore) {
					x.violate("lock-left-by-command", "command %v (error: %v) ended and left the lock file behind (%q)", args, err, lock)
				}
				if err != nil && strings.Contains(err.Error(), "PANIC") {
					x.violate("panic", "command %v: %v", args, err)
				}
				if err == nil {
					res.StepsOK++
				} else {
					w.Stats.Probe("command_failed")
				}
			}
		}
		x.invariants(label)
		w.Act(nil)
		w.Log.EndStep(label, true)
		if len(res.Violations) > 0 {
			// the lock protocol is broken from here on: two simulated processes inside one cache
			// would block each other on the index files exactly as two real ones would
			break
		}
	}
	// the end: whoever is left dies, and the cache must open again
	for _, pr := range x.procs {
		if pr.live {
			x.die(pr)
		}
	}
	fin := &proc{id: 99}
	opened, _, err := x.startOpen(fin, -1, "")
	if !opened {
		lock, ok := x.lockContent()
		x.violate("open-failed-after-death", "after every process is gone the cache cannot be opened: %v (lock file exists=%v content=%q)", err, ok, lock)
	} else {
		x.act(fin)
		_ = fin.cache.Close()
		sim.UnregisterFSControl(x.gb, fin.c)
		w.EndPid(fin.pid)
	}
	x.invariants("end")
	return res
}

type leaf struct {
	path    []string
	use     string
	backend bool
}

// commandLeaves walks the real cobra tree.
func commandLeaves() []leaf {
	root := commands.NewRootCommand()
	var out []leaf
	var walk func(c *cobra.Command, path []string)
	walk = func(c *cobra.Command, path []string) {
		if c.Hidden {
			return
		}
		name := c.Name()
		p := append(append([]string{}, path...), name)
		full := strings.Join(p[1:], " ")
		switch full {
		case "termui", "webui", "bridge new", "bridge auth add-token", "help", "completion", "commands", "version":
			return
		}
		if len(p) > 1 && (c.RunE != nil || c.Run != nil) {
			out = append(out, leaf{path: p[1:], use: c.Use, backend: c.PreRunE != nil && full != "bridge auth rm"})
		}
		for _, sub := range c.Commands() {
			walk(sub, p)
		}
	}
	walk(root, nil)
	sort.Slice(out, func(i, j int) bool { return strings.Join(out[i].path, " ") < strings.Join(out[j].path, " ") })
	return out
}

func leafArgs(l leaf, bugId string, valid bool) []string {
	args := append([]string{}, l.path...)
	id := bugId[:10]
	if !valid {
		id = "zzzzzzz"
	}
	full := strings.Join(l.path, " ")
	switch {
	case full == "bug new":
		if valid {
			args = append(args, "-t", "from the cli", "-m", "body")
		} else {
			args = append(args, "-t", "", "-m", "body", "--non-interactive")
		}
	case full == "bug comment new":
		args = append(args, id, "-m", "cli comment")
	case full == "bug comment edit":
		args = append(args, id, "-m", "edited")
	case full == "bug title edit":
		args = append(args, id, "-t", "new title")
	case full == "bug label new", full == "bug label rm":
		args = append(args, id, "cli-label")
	case full == "user new":
		args = append(args, "-n", "cli user", "-e", "cli@example.org")
	case full == "user adopt":
		args = append(args, id)
	case full == "push", full == "pull":
		if valid {
			args = append(args, "hub0")
		} else {
			args = append(args, "nowhere")
		}
	case full == "bridge pull", full == "bridge push", full == "bridge rm", full == "bridge auth show", full == "bridge auth rm":
		args = append(args, "nothing")
	case strings.Contains(l.use, "BUG_ID"):
		args = append(args, id)
	}
	return args
}
