#!/usr/bin/env python3
"""import_seeded.py <ID> <name> <detected-by json> : copy a confirmed seeded change into /verif/seeded/<name>/"""
import sys, os, json, shutil, glob
sid, name, det = sys.argv[1], sys.argv[2], json.loads(sys.argv[3])
src = '/tmp/seeded-out/' + sid
dst = '/verif/seeded/' + name
os.makedirs(dst, exist_ok=True)
shutil.copy(src + '/patch.diff', dst + '/patch.diff')
# demonstration files
demo = []
for root, _, files in os.walk(src + '/demo_files'):
    for f in files:
        p = os.path.join(root, f)
        rel = os.path.relpath(p, src + '/demo_files')
        os.makedirs(os.path.dirname(os.path.join(dst, 'demo', rel)), exist_ok=True)
        shutil.copy(p, os.path.join(dst, 'demo', rel))
        demo.append(rel)
if not demo:
    for p in glob.glob(src + '/*_test.go'):
        os.makedirs(dst + '/demo', exist_ok=True)
        shutil.copy(p, dst + '/demo/' + os.path.basename(p))
        demo.append(os.path.basename(p))
meta = json.load(open(src + '/meta.json'))
out = {
    "property": meta.get("property", sid),
    "summary": meta.get("summary"),
    "needs": meta.get("needs"),
    "files_changed": meta.get("files_changed"),
    "demo_files": demo,
    "demo_placement": "copy demo/<path> to the same relative path in a checkout of /repo, then run demo_cmd there",
    "demo_cmd": det.get("demo_cmd", meta.get("demo_cmd")),
    "confirmed_by_me": {
        "where": "scratch worktree /tmp/wt-%s (removed afterwards)" % sid,
        "builds_with_patch": True,
        "existing_suite_with_patch": "only the 8 known offline failures (bridge/github TestValidateUsername*, bridge/launchpad TestValidateProject*)",
        "demo_without_patch": "pass",
        "demo_with_patch": "fail",
    },
    "checks_run": det.get("checks"),
    "author": "independent sub-agent given only the property text and a scratch worktree",
}
json.dump(out, open(dst + '/meta.json', 'w'), indent=1)
print("imported", name)
