#!/bin/bash
# tools/suite_with_patch.sh <ID>: run the whole existing test suite in /tmp/wt-<ID> with the patch applied; demo tests moved away
ID=$1
export GOFLAGS=-mod=mod GOPROXY=off GOSUMDB=off GOTOOLCHAIN=local
cd /tmp/wt-$ID || exit 2
git checkout -q -- .
mkdir -p /tmp/seeded-out/$ID/demo_files
for f in $(git status --short | grep '^??' | awk '{print $2}'); do mkdir -p /tmp/seeded-out/$ID/demo_files/$(dirname $f); mv $f /tmp/seeded-out/$ID/demo_files/$f; done
git apply /tmp/seeded-out/$ID/patch.diff || exit 2
go test -vet=off -count=1 ./... 2>&1 | grep -E "^(FAIL|---|ok|panic)" | grep -v "^ok" > /tmp/seeded-out/$ID/suite_with_patch.txt
git checkout -q -- .
echo "$ID: $(grep -c '^--- FAIL' /tmp/seeded-out/$ID/suite_with_patch.txt) failing tests: $(grep '^--- FAIL' /tmp/seeded-out/$ID/suite_with_patch.txt | awk '{print $3}' | sort -u | tr '\n' ' ')"
